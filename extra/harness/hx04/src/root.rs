//! The root a case polls: outer combinator chain around a join of branches, each branch an inner chain around
//! a leaf. Chains are applied with the real `FutureExt` / `StreamExt` combinators of compio-runtime; boxing is
//! only used to nest them dynamically. A branch with an empty chain keeps its concrete leaf type.
use std::{
    cell::RefCell,
    future::Future,
    pin::Pin,
    rc::Rc,
    task::{Context, Poll},
};

use compio_runtime::{CancelToken, Cancelled};
use futures_util::Stream;

use crate::leaf::{Item, LeafAm, LeafMg, LeafPr, LeafSb, LeafSx, Out};

pub type BoxFut = Pin<Box<dyn Future<Output = Out>>>;
pub type BoxStr = Pin<Box<dyn Stream<Item = Item>>>;

/// `Result<Out, Cancelled>` of a fail-fast future folded back into `Out` (polls with the context it gets).
struct MapFF<F>(Pin<Box<F>>);

impl<F: Future<Output = Result<Out, Cancelled>>> Future for MapFF<F> {
    type Output = Out;

    fn poll(mut self: Pin<&mut Self>, cx: &mut Context<'_>) -> Poll<Out> {
        self.0.as_mut().poll(cx).map(|r| r.unwrap_or(Out::FF))
    }
}

struct MapFFStream<S>(Pin<Box<S>>);

impl<S: Stream<Item = Result<Item, Cancelled>>> Stream for MapFFStream<S> {
    type Item = Item;

    fn poll_next(mut self: Pin<&mut Self>, cx: &mut Context<'_>) -> Poll<Option<Item>> {
        self.0.as_mut().poll_next(cx).map(|o| o.map(|r| r.unwrap_or(Item::FF)))
    }
}

pub struct Wrappers<'a> {
    pub toks: &'a [CancelToken; 2],
    /// personality ids for "P1" (registered) and "P2" (never registered)
    pub pers: [u16; 2],
}

fn idx(w: &str) -> usize {
    let i = if w.ends_with('1') { 0 } else { 1 };
    // negative control of the check: wire with_cancel to the other token, the contract oracle must notice
    if w.starts_with('C') && std::env::var("X04_FAULT").as_deref() == Ok("swap_tokens") { 1 - i } else { i }
}

/// Apply a chain (outermost first) around a future.
pub fn wrap_future(mut f: BoxFut, chain: &[String], w: &Wrappers<'_>) -> BoxFut {
    for name in chain.iter().rev() {
        let i = idx(name);
        f = match name.as_bytes()[0] {
            b'C' => Box::pin(compio_runtime::FutureExt::with_cancel(f, w.toks[i].clone())),
            b'F' => Box::pin(MapFF(Box::pin(compio_runtime::FutureExt::with_cancel(f, w.toks[i].clone()).fail_fast()))),
            b'P' => Box::pin(compio_runtime::FutureExt::with_personality(f, w.pers[i])),
            _ => panic!("unknown wrapper {name}"),
        };
    }
    f
}

/// Apply a chain (outermost first) around a stream.
pub fn wrap_stream(mut s: BoxStr, chain: &[String], w: &Wrappers<'_>) -> BoxStr {
    for name in chain.iter().rev() {
        let i = idx(name);
        s = match name.as_bytes()[0] {
            b'C' => Box::pin(compio_runtime::StreamExt::with_cancel(s, w.toks[i].clone())),
            b'F' => Box::pin(MapFFStream(Box::pin(compio_runtime::StreamExt::with_cancel(s, w.toks[i].clone()).fail_fast()))),
            b'P' => Box::pin(compio_runtime::StreamExt::with_personality(s, w.pers[i])),
            _ => panic!("unknown wrapper {name}"),
        };
    }
    s
}

pub enum Branch {
    Sb(Pin<Box<LeafSb>>),
    Sx(Pin<Box<LeafSx>>),
    Am(Pin<Box<LeafAm>>),
    Mg(Pin<Box<LeafMg>>),
    Pr(Pin<Box<LeafPr>>),
    Fut(BoxFut),
    Str(BoxStr),
    Gone,
}

/// Result of polling one branch once.
#[derive(Debug, Clone)]
pub enum BrPoll {
    Pending,
    Out(Out),
    Item(Item),
    End,
}

impl Branch {
    fn poll(&mut self, cx: &mut Context<'_>) -> BrPoll {
        fn f<T: Future<Output = Out> + ?Sized>(p: Pin<&mut T>, cx: &mut Context<'_>) -> BrPoll {
            match p.poll(cx) {
                Poll::Ready(o) => BrPoll::Out(o),
                Poll::Pending => BrPoll::Pending,
            }
        }
        fn s<T: Stream<Item = Item> + ?Sized>(p: Pin<&mut T>, cx: &mut Context<'_>) -> BrPoll {
            match p.poll_next(cx) {
                Poll::Ready(Some(i)) => BrPoll::Item(i),
                Poll::Ready(None) => BrPoll::End,
                Poll::Pending => BrPoll::Pending,
            }
        }
        match self {
            Branch::Sb(l) => f(l.as_mut(), cx),
            Branch::Sx(l) => f(l.as_mut(), cx),
            Branch::Pr(l) => f(l.as_mut(), cx),
            Branch::Fut(l) => f(l.as_mut(), cx),
            Branch::Am(l) => s(l.as_mut(), cx),
            Branch::Mg(l) => s(l.as_mut(), cx),
            Branch::Str(l) => s(l.as_mut(), cx),
            Branch::Gone => BrPoll::Pending,
        }
    }

    /// "t" / "f" for a leaf still held as its concrete type, "-" otherwise.
    pub fn term(&self) -> &'static str {
        let b = |x: bool| if x { "t" } else { "f" };
        match self {
            Branch::Sb(l) => b(l.is_terminated()),
            Branch::Sx(l) => b(l.is_terminated()),
            Branch::Am(l) => b(l.is_terminated()),
            Branch::Mg(l) => b(l.is_terminated()),
            _ => "-",
        }
    }
}

pub struct Shared {
    pub branches: Vec<Branch>,
    /// branch the join polls at the next poll of the root
    pub sel: usize,
    pub last: Option<BrPoll>,
}

/// The join: polls the selected branch with the context it is polled with, drops a branch future the moment
/// it is ready (like `MaybeDone`), is ready when no branch is left.
pub struct JoinN(pub Rc<RefCell<Shared>>);

impl Future for JoinN {
    type Output = Out;

    fn poll(self: Pin<&mut Self>, cx: &mut Context<'_>) -> Poll<Out> {
        let mut sh = self.0.borrow_mut();
        let b = sh.sel;
        let r = sh.branches[b].poll(cx);
        if matches!(r, BrPoll::Out(_)) {
            sh.branches[b] = Branch::Gone;
        }
        sh.last = Some(r);
        if sh.branches.iter().all(|x| matches!(x, Branch::Gone)) { Poll::Ready(Out::Unit) } else { Poll::Pending }
    }
}
