//! Leaves: the real `Submit`, `Submit<_, Extra>`, `SubmitMulti`, `SubmitMultiManaged` of compio-runtime held as
//! their concrete types (so that `is_terminated` / `try_take` stay reachable), each preceded by a look at the
//! context it is polled with; and the probe future that inspects its waker.
use std::{
    cell::RefCell,
    future::Future,
    os::fd::{FromRawFd, OwnedFd},
    pin::Pin,
    rc::Rc,
    task::{Context, Poll},
};

use compio_buf::{BufResult, IntoInner};
use compio_driver::{
    BufferRef, Extra, SharedFd,
    op::{AcceptMulti, Recv, RecvMulti},
};
use compio_runtime::{CancelToken, Submit, SubmitMulti, SubmitMultiManaged};
use futures_util::{
    Stream,
    future::FusedFuture,
    stream::FusedStream,
};

use crate::{classify, seen_token, sees_some_token};

pub type Fd = SharedFd<OwnedFd>;

/// What a leaf saw in its last poll.
#[derive(Default, Clone, Debug)]
pub struct LeafObs {
    pub polled: u32,
    pub seen: i64,
    pub probe: bool,
    pub c1: i64,
    pub c2: i64,
    pub x1: i64,
    pub other_sees: bool,
}

pub type ObsCell = Rc<RefCell<LeafObs>>;

#[derive(Clone)]
pub struct LeafEnv {
    pub toks: [CancelToken; 2],
    pub obs: ObsCell,
    pub iour: bool,
    /// personality id registered with the ring (reported as 1), 0 if none
    pub p1: u16,
}

impl LeafEnv {
    fn note(&self, cx: &mut Context<'_>) {
        let seen = seen_token(cx.waker(), &self.toks);
        let mut o = self.obs.borrow_mut();
        o.polled += 1;
        o.seen = seen;
    }

    fn pers_of(&self, extra: &Extra) -> i64 {
        match extra.get_personality() {
            Ok(None) => 0,
            Ok(Some(p)) if self.p1 != 0 && p == self.p1 => 1,
            Ok(Some(p)) if p == crate::BAD_PERSONALITY => 2,
            Ok(Some(_)) => 9,
            Err(_) => -1,
        }
    }
}

#[derive(Debug, Clone)]
pub enum Out {
    Res { v: String, n: usize, data: Vec<u8>, px: i64 },
    /// `Err(Cancelled)` of a fail-fast level
    FF,
    /// the join: every branch has finished
    Unit,
}

#[derive(Debug, Clone)]
pub enum Item {
    Res { v: String, n: usize, data: Vec<u8> },
    FF,
}

fn recv_out(r: std::io::Result<usize>, op: Recv<Vec<u8>, Fd>, px: i64) -> Out {
    let v = classify(&r);
    let buf = op.into_inner();
    let n = r.as_ref().ok().copied().unwrap_or(0);
    let data = if n <= buf.capacity() { unsafe { std::slice::from_raw_parts(buf.as_ptr(), n) }.to_vec() } else { vec![] };
    Out::Res { v, n, data, px }
}

pub struct LeafSb {
    pub fut: Submit<Recv<Vec<u8>, Fd>>,
    pub env: LeafEnv,
}

impl Future for LeafSb {
    type Output = Out;

    fn poll(mut self: Pin<&mut Self>, cx: &mut Context<'_>) -> Poll<Out> {
        self.env.note(cx);
        match Pin::new(&mut self.fut).poll(cx) {
            Poll::Ready(BufResult(r, op)) => Poll::Ready(recv_out(r, op, -1)),
            Poll::Pending => Poll::Pending,
        }
    }
}

impl LeafSb {
    pub fn is_terminated(&self) -> bool {
        FusedFuture::is_terminated(&self.fut)
    }
}

pub struct LeafSx {
    pub fut: Submit<Recv<Vec<u8>, Fd>, Extra>,
    pub env: LeafEnv,
}

impl Future for LeafSx {
    type Output = Out;

    fn poll(mut self: Pin<&mut Self>, cx: &mut Context<'_>) -> Poll<Out> {
        self.env.note(cx);
        match Pin::new(&mut self.fut).poll(cx) {
            Poll::Ready((BufResult(r, op), extra)) => {
                let px = self.env.pers_of(&extra);
                Poll::Ready(recv_out(r, op, px))
            }
            Poll::Pending => Poll::Pending,
        }
    }
}

impl LeafSx {
    pub fn is_terminated(&self) -> bool {
        FusedFuture::is_terminated(&self.fut)
    }
}

pub struct LeafAm {
    pub st: Option<SubmitMulti<AcceptMulti<Fd>>>,
    pub env: LeafEnv,
}

impl Stream for LeafAm {
    type Item = Item;

    fn poll_next(mut self: Pin<&mut Self>, cx: &mut Context<'_>) -> Poll<Option<Item>> {
        self.env.note(cx);
        let iour = self.env.iour;
        let st = self.st.as_mut().expect("stream taken");
        match Pin::new(st).poll_next(cx) {
            Poll::Ready(Some(BufResult(r, _extra))) => {
                let v = classify(&r);
                if let Ok(fd) = &r {
                    // a connection delivered while the multishot goes on belongs to the caller; the single
                    // accept of the polling driver keeps its socket inside the operation
                    if iour {
                        drop(unsafe { OwnedFd::from_raw_fd(*fd as i32) });
                    }
                }
                Poll::Ready(Some(Item::Res { v, n: r.is_ok() as usize, data: vec![] }))
            }
            Poll::Ready(None) => Poll::Ready(None),
            Poll::Pending => Poll::Pending,
        }
    }
}

impl LeafAm {
    pub fn is_terminated(&self) -> bool {
        self.st.as_ref().map(FusedStream::is_terminated).unwrap_or(true)
    }

    /// `SubmitMulti::try_take`: true = the operation was handed back (and is dropped here).
    pub fn try_take(&mut self) -> bool {
        match self.st.take().expect("stream taken").try_take() {
            Ok(op) => {
                drop(op);
                true
            }
            Err(s) => {
                self.st = Some(s);
                false
            }
        }
    }
}

pub struct LeafMg {
    pub st: SubmitMultiManaged<RecvMulti<Fd>, BufferRef>,
    pub env: LeafEnv,
}

impl Stream for LeafMg {
    type Item = Item;

    fn poll_next(mut self: Pin<&mut Self>, cx: &mut Context<'_>) -> Poll<Option<Item>> {
        self.env.note(cx);
        match Pin::new(&mut self.st).poll_next(cx) {
            Poll::Ready(Some(Ok(Some(buf)))) => {
                let data = buf.to_vec();
                drop(buf);
                let v = if data.is_empty() { "empty" } else { "ok" };
                Poll::Ready(Some(Item::Res { v: v.into(), n: data.len(), data }))
            }
            Poll::Ready(Some(Ok(None))) => Poll::Ready(Some(Item::Res { v: "none".into(), n: 0, data: vec![] })),
            Poll::Ready(Some(Err(e))) => Poll::Ready(Some(Item::Res { v: classify(&Err(e)), n: 0, data: vec![] })),
            Poll::Ready(None) => Poll::Ready(None),
            Poll::Pending => Poll::Pending,
        }
    }
}

impl LeafMg {
    pub fn is_terminated(&self) -> bool {
        FusedStream::is_terminated(&self.st)
    }
}

/// Never ready. Looks at its context, clones the waker on this and on another thread, uses and drops the
/// clones here and there. Wakes exactly `PROBE_WAKES` times per poll.
pub struct LeafPr {
    pub env: LeafEnv,
}

pub const PROBE_WAKES: usize = 4;

impl Future for LeafPr {
    type Output = Out;

    fn poll(self: Pin<&mut Self>, cx: &mut Context<'_>) -> Poll<Out> {
        self.env.note(cx);
        let toks = &self.env.toks;
        let w = cx.waker();
        // same thread: ExtWaker::clone -> OwnedExtWaker (ext cloned into owned form), then Arc clones
        let c1 = w.clone();
        let s1 = seen_token(&c1, toks);
        let c2 = c1.clone();
        let s2 = seen_token(&c2, toks);
        // the borrowed waker cloned on another thread: only the underlying waker survives
        let x1 = std::thread::scope(|s| s.spawn(|| w.clone()).join().expect("clone thread"));
        let sx = seen_token(&x1, toks);
        // an owned clone used, cloned and dropped on another thread
        let other_sees = std::thread::scope(|s| {
            s.spawn(move || {
                let some = sees_some_token(&c2);
                c2.wake_by_ref();
                let c3 = c2.clone();
                drop(c3);
                drop(c2);
                some
            })
            .join()
            .expect("owned thread")
        });
        c1.wake();
        w.wake_by_ref();
        x1.wake();
        let mut o = self.env.obs.borrow_mut();
        o.probe = true;
        o.c1 = s1;
        o.c2 = s2;
        o.x1 = sx;
        o.other_sees = other_sees;
        Poll::Pending
    }
}
