//! Programs of the X03 model run on real runtimes: who (main future, spawned tasks) waits for what
//! (cross-thread wakes, descriptor reads, timers, blocking jobs), and the outside world that makes it happen.
use std::{
    collections::BTreeMap,
    future::Future,
    os::fd::{AsRawFd, FromRawFd, OwnedFd, RawFd},
    pin::Pin,
    sync::{
        Arc, Condvar, Mutex,
        atomic::{AtomicBool, Ordering},
    },
    task::{Context, Poll, Waker},
    time::{Duration, Instant},
};

use compio_buf::{BufResult, IntoInner};
use compio_driver::{
    SharedFd,
    op::{Asyncify, Read},
};
use compio_runtime::JoinHandle;
use serde_json::Value;

use crate::ctl;

/// name -> owner ("main", "t1", "t2", "none")
pub type Owners = Vec<(String, String)>;

#[derive(Clone, Debug)]
pub struct Prog {
    pub wakers: Owners,
    pub ops: Owners,
    pub timers: Owners,
    pub jobs: Owners,
    pub tasks: Vec<String>,
}

fn owners(v: &Value) -> Owners {
    match v {
        Value::Object(m) => m.iter().map(|(k, v)| (k.clone(), v.as_str().unwrap_or("none").to_string())).collect(),
        _ => vec![], // ToJson prints a function with an empty domain as []
    }
}

impl Prog {
    pub fn from_json(v: &Value) -> Prog {
        Prog {
            wakers: owners(&v["wakers"]),
            ops: owners(&v["ops"]),
            timers: owners(&v["timers"]),
            jobs: owners(&v["jobs"]),
            tasks: v["tasks"].as_array().map(|a| a.iter().map(|x| x.as_str().unwrap().to_string()).collect()).unwrap_or_default(),
        }
    }
}

pub struct WakeSrc {
    pub cond: AtomicBool,
    pub waker: Mutex<Option<Waker>>,
}

pub struct Gate {
    pub open: Mutex<bool>,
    pub cv: Condvar,
}

/// The outside world of one run.
pub struct Env {
    pub prog: Prog,
    pub wakes: BTreeMap<String, Arc<WakeSrc>>,
    /// read end (taken by the future at its first poll), write end
    pub pipes: BTreeMap<String, (Mutex<Option<OwnedFd>>, OwnedFd)>,
    pub gates: BTreeMap<String, Arc<Gate>>,
    pub timer_len: Duration,
    pub deadlines: Mutex<BTreeMap<String, Instant>>,
    /// (target, names observed so far) per poll
    pub polls: Mutex<Vec<(String, Vec<String>)>>,
    /// descriptor the host waits for (registered eventfd / poller), the driver's waker
    pub watch_fd: Mutex<Option<RawFd>>,
    /// io_uring: the ring, whose fdinfo shows the completion queue tail and the armed polls
    pub ring_fd: Mutex<Option<RawFd>>,
    pub rt_waker: Mutex<Option<Waker>>,
    pub timer_early: AtomicBool,
    /// outside events that have been fired already (an event is fired once: firing it again could rescue a loop
    /// that lost it)
    pub fired: Mutex<Vec<String>>,
    /// negative control: a wake() that sets its condition but never calls the waker
    pub neg_skip_wake: bool,
}

fn pipe() -> (OwnedFd, OwnedFd) {
    let mut fds = [0i32; 2];
    let r = unsafe { libc::pipe2(fds.as_mut_ptr(), libc::O_NONBLOCK | libc::O_CLOEXEC) };
    assert_eq!(r, 0, "pipe2");
    unsafe { (OwnedFd::from_raw_fd(fds[0]), OwnedFd::from_raw_fd(fds[1])) }
}

pub fn value_of(name: &str) -> u64 {
    // deterministic, distinct per source name, fits a byte
    let mut h: u64 = 7;
    for b in name.bytes() {
        h = (h * 31 + b as u64) % 251;
    }
    1 + h
}

impl Env {
    pub fn new(prog: &Prog, timer_len: Duration) -> Arc<Env> {
        let mut wakes = BTreeMap::new();
        for (w, _) in &prog.wakers {
            wakes.insert(w.clone(), Arc::new(WakeSrc { cond: AtomicBool::new(false), waker: Mutex::new(None) }));
        }
        let mut pipes = BTreeMap::new();
        for (o, _) in &prog.ops {
            let (r, w) = pipe();
            pipes.insert(o.clone(), (Mutex::new(Some(r)), w));
        }
        let mut gates = BTreeMap::new();
        for (j, _) in &prog.jobs {
            gates.insert(j.clone(), Arc::new(Gate { open: Mutex::new(false), cv: Condvar::new() }));
        }
        Arc::new(Env {
            prog: prog.clone(),
            wakes,
            pipes,
            gates,
            timer_len,
            deadlines: Mutex::new(BTreeMap::new()),
            polls: Mutex::new(vec![]),
            watch_fd: Mutex::new(None),
            ring_fd: Mutex::new(None),
            rt_waker: Mutex::new(None),
            timer_early: AtomicBool::new(false),
            fired: Mutex::new(vec![]),
            neg_skip_wake: std::env::var("VERIF_NEG_SKIP_WAKE").is_ok(),
        })
    }

    /// A thread other than the runtime's sets the condition and wakes the target. Returns false if the target
    /// has not been polled yet (no waker to call).
    pub fn fire_wake(&self, name: &str) -> bool {
        let s = &self.wakes[name];
        s.cond.store(true, Ordering::SeqCst);
        let wk = s.waker.lock().unwrap().clone();
        match wk {
            Some(_) if self.neg_skip_wake => {
                self.fired.lock().unwrap().push(name.to_string());
                true
            }
            Some(wk) => {
                self.fired.lock().unwrap().push(name.to_string());
                wk.wake_by_ref();
                true
            }
            None => false,
        }
    }

    pub fn fire_op(&self, name: &str) {
        self.fired.lock().unwrap().push(name.to_string());
        let b = [value_of(name) as u8];
        let fd = self.pipes[name].1.as_raw_fd();
        // (the read end is gone once the operation has completed: a late write of the tear-down may fail)
        let _ = unsafe { libc::write(fd, b.as_ptr() as *const _, 1) };
    }

    pub fn fire_job(&self, name: &str) {
        self.fired.lock().unwrap().push(name.to_string());
        let g = &self.gates[name];
        *g.open.lock().unwrap() = true;
        g.cv.notify_all();
    }

    pub fn deadline(&self, name: &str) -> Option<Instant> {
        self.deadlines.lock().unwrap().get(name).copied()
    }

    pub fn was_fired(&self, name: &str) -> bool {
        self.fired.lock().unwrap().iter().any(|n| n == name)
    }

    /// Fire, from the calling thread, every outside event that has not happened yet (each exactly once).
    pub fn fire_remaining(&self) {
        for (o, _) in &self.prog.ops {
            if !self.was_fired(o) {
                self.fire_op(o);
            }
        }
        for (j, _) in &self.prog.jobs {
            if !self.was_fired(j) {
                self.fire_job(j);
            }
        }
        let mut pending: Vec<String> = self.prog.wakers.iter().map(|(w, _)| w.clone()).filter(|w| !self.was_fired(w)).collect();
        let t0 = Instant::now();
        while !pending.is_empty() && t0.elapsed() < Duration::from_secs(10) {
            pending.retain(|w| !self.fire_wake(w));
            std::thread::sleep(Duration::from_millis(1));
        }
    }

    /// Release everything (tear down / rescue of a run that hangs).
    pub fn fire_all(&self) {
        for (w, _) in &self.prog.wakers {
            self.wakes[w].cond.store(true, Ordering::SeqCst);
            if let Some(wk) = self.wakes[w].waker.lock().unwrap().clone() {
                wk.wake_by_ref();
            }
        }
        for (j, _) in &self.prog.jobs {
            self.fire_job(j);
        }
    }

    pub fn nudge(&self) {
        if let Some(w) = self.rt_waker.lock().unwrap().clone() {
            w.wake_by_ref();
        }
    }
}

type BoxFut = Pin<Box<dyn Future<Output = u64>>>;

enum Src {
    Wake(Arc<WakeSrc>),
    Fut(BoxFut),
}

/// What one target (main future or task) returns: the values of its sources, by name.
pub type TargetOut = Vec<(String, u64)>;

pub struct Target {
    name: String,
    site: &'static str,
    env: Arc<Env>,
    started: bool,
    srcs: Vec<(String, Option<Src>)>,
    out: TargetOut,
    joins: Vec<(String, Option<JoinHandle<TargetOut>>)>,
    task_out: Vec<(String, TargetOut)>,
}

/// Result of a whole program: main's values and every task's values.
#[derive(Debug, Clone, PartialEq, Eq)]
pub struct Outcome {
    pub main: TargetOut,
    pub tasks: Vec<(String, TargetOut)>,
}

impl Outcome {
    pub fn to_json(&self) -> Value {
        serde_json::json!({"main": self.main, "tasks": self.tasks})
    }
}

fn noop_waker() -> Waker {
    use std::task::{RawWaker, RawWakerVTable};
    fn clone(_: *const ()) -> RawWaker {
        RawWaker::new(std::ptr::null(), &VT)
    }
    fn noop(_: *const ()) {}
    static VT: RawWakerVTable = RawWakerVTable::new(clone, noop, noop, noop);
    unsafe { Waker::from_raw(RawWaker::new(std::ptr::null(), &VT)) }
}

fn job_future(env: &Arc<Env>, name: &str) -> BoxFut {
    let gate = env.gates[name].clone();
    let val = value_of(name) as usize;
    Box::pin(async move {
        let BufResult(r, _op) = compio_runtime::submit(Asyncify::new(move || {
            let mut g = gate.open.lock().unwrap();
            while !*g {
                g = gate.cv.wait(g).unwrap();
            }
            BufResult(Ok(val), ())
        }))
        .await;
        r.map(|n| n as u64).unwrap_or(u64::MAX)
    })
}

impl Target {
    pub fn new(env: &Arc<Env>, name: &str, joins: Vec<(String, JoinHandle<TargetOut>)>) -> Target {
        let p = &env.prog;
        let mut srcs = vec![];
        for set in [&p.wakers, &p.ops, &p.timers, &p.jobs] {
            for (s, owner) in set.iter() {
                if owner == name {
                    srcs.push((s.clone(), None));
                }
            }
        }
        Target {
            name: name.to_string(),
            site: if name == "main" { "x.main" } else { "x.task" },
            env: env.clone(),
            started: false,
            srcs,
            out: vec![],
            joins: joins.into_iter().map(|(n, h)| (n, Some(h))).collect(),
            task_out: vec![],
        }
    }

    /// First poll: everything this target waits for is created (submitted, armed, dispatched) now.
    fn start(&mut self) {
        let env = self.env.clone();
        let p = env.prog.clone();
        for (name, slot) in self.srcs.iter_mut() {
            let is = |set: &Owners| set.iter().any(|(n, _)| n == name);
            *slot = Some(if is(&p.wakers) {
                Src::Wake(env.wakes[name].clone())
            } else if is(&p.ops) {
                let rfd = env.pipes[name].0.lock().unwrap().take().expect("pipe read end taken twice");
                let fd = SharedFd::new(rfd);
                Src::Fut(Box::pin(async move {
                    let BufResult(r, op) = compio_runtime::submit(Read::new(fd, Vec::<u8>::with_capacity(8))).await;
                    let mut b: Vec<u8> = op.into_inner();
                    match r {
                        Ok(n) if n >= 1 => {
                            unsafe { b.set_len(n) };
                            b[0] as u64
                        }
                        Ok(_) => 0,
                        Err(_) => u64::MAX,
                    }
                }))
            } else if is(&p.timers) {
                let d = env.timer_len;
                let t0 = Instant::now();
                env.deadlines.lock().unwrap().insert(name.clone(), t0 + d);
                let e2 = env.clone();
                Src::Fut(Box::pin(async move {
                    compio_runtime::time::sleep(d).await;
                    if t0.elapsed() < d {
                        e2.timer_early.store(true, Ordering::SeqCst);
                    }
                    1
                }))
            } else {
                Src::Fut(job_future(&env, name))
            });
        }
        if self.name == "main" {
            // jobs nobody waits for: dispatched, then their future is leaked with a waker that wakes nobody
            for (j, owner) in &p.jobs {
                if owner == "none" {
                    let mut f = job_future(&env, j);
                    let w = noop_waker();
                    let _ = f.as_mut().poll(&mut Context::from_waker(&w));
                    std::mem::forget(f);
                }
            }
        }
    }
}

impl Future for Target {
    type Output = Outcome;

    fn poll(mut self: Pin<&mut Self>, cx: &mut Context<'_>) -> Poll<Outcome> {
        let this = &mut *self;
        ctl::point(this.site, &this.name);
        if !this.started {
            this.started = true;
            this.start();
        }
        for (name, slot) in this.srcs.iter_mut() {
            let ready = match slot {
                None => None,
                Some(Src::Wake(s)) => {
                    *s.waker.lock().unwrap() = Some(cx.waker().clone());
                    if s.cond.load(Ordering::SeqCst) { Some(value_of(name)) } else { None }
                }
                Some(Src::Fut(f)) => match f.as_mut().poll(cx) {
                    Poll::Ready(v) => Some(v),
                    Poll::Pending => None,
                },
            };
            if let Some(v) = ready {
                this.out.push((name.clone(), v));
                *slot = None;
            }
        }
        for (name, slot) in this.joins.iter_mut() {
            if let Some(h) = slot {
                if let Poll::Ready(r) = Pin::new(h).poll(cx) {
                    let v = match r {
                        Ok(o) => o,
                        Err(_) => vec![("<cancelled or panicked>".to_string(), u64::MAX)],
                    };
                    this.task_out.push((name.clone(), v));
                    *slot = None;
                }
            }
        }
        let mut obs: Vec<String> = this.out.iter().map(|(n, _)| n.clone()).collect();
        obs.sort();
        {
            let mut p = this.env.polls.lock().unwrap();
            if p.len() < 10_000 {
                p.push((this.name.clone(), obs));
            }
        }
        let all = this.srcs.iter().all(|(_, s)| s.is_none()) && this.joins.iter().all(|(_, s)| s.is_none());
        if all {
            let mut main = std::mem::take(&mut this.out);
            main.sort();
            let mut tasks = std::mem::take(&mut this.task_out);
            tasks.sort();
            Poll::Ready(Outcome { main, tasks })
        } else {
            Poll::Pending
        }
    }
}

/// A task is a Target without joins; its JoinHandle yields its values.
pub struct TaskFut(pub Target);

impl Future for TaskFut {
    type Output = TargetOut;

    fn poll(mut self: Pin<&mut Self>, cx: &mut Context<'_>) -> Poll<TargetOut> {
        Pin::new(&mut self.0).poll(cx).map(|o| o.main)
    }
}

pub fn eventfds() -> Vec<RawFd> {
    let mut v = vec![];
    if let Ok(rd) = std::fs::read_dir("/proc/self/fd") {
        for e in rd.flatten() {
            if let Ok(t) = std::fs::read_link(e.path()) {
                if t.to_string_lossy().contains("[eventfd]") {
                    if let Ok(n) = e.file_name().to_string_lossy().parse::<RawFd>() {
                        v.push(n);
                    }
                }
            }
        }
    }
    v
}

/// Is `fd` readable within `ms`?
pub fn readable_within(fd: RawFd, ms: i32) -> bool {
    let mut p = libc::pollfd { fd, events: libc::POLLIN, revents: 0 };
    let n = unsafe { libc::poll(&mut p, 1, ms) };
    n > 0 && (p.revents & libc::POLLIN) != 0
}

fn fdinfo(fd: RawFd) -> Option<String> {
    std::fs::read_to_string(format!("/proc/self/fdinfo/{fd}")).ok()
}

/// Tail of the completion queue of an io_uring descriptor (entries posted so far).
pub fn cq_tail(fd: RawFd) -> Option<u64> {
    let s = fdinfo(fd)?;
    for l in s.lines() {
        if let Some(v) = l.strip_prefix("CqTail:") {
            return v.trim().parse().ok();
        }
    }
    None
}

/// Is a PollAdd (opcode 6: the notifier's multishot poll) armed in the ring?
pub fn polladd_armed(fd: RawFd) -> bool {
    fdinfo(fd).map(|s| s.lines().any(|l| l.trim_start().starts_with("op=6,"))).unwrap_or(false)
}
