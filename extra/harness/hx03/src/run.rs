//! Running a program of prog.rs under Runtime::block_on and under RuntimeCompat with the real adapters.
use std::{cell::Cell, io, ops::Deref, os::fd::AsRawFd, sync::Arc, time::Duration};

use compio_compat::{Adapter, FuturesAdapter, RuntimeCompat, TokioAdapter};
use compio_driver::{DriverType, ProactorBuilder};
use compio_runtime::Runtime;

use crate::{
    ctl,
    prog::{Env, Outcome, Target, TaskFut, eventfds},
};

/// The real adapter with the harness' sites around its two calls: the loop in between is compio-compat's.
pub struct Steer<A> {
    inner: A,
    last: Cell<&'static str>,
}

impl<A: Adapter> Adapter for Steer<A> {
    fn new(runtime: Runtime) -> io::Result<Self> {
        Ok(Steer { inner: A::new(runtime)?, last: Cell::new("none") })
    }

    async fn wait(&self, timeout: Option<Duration>) -> io::Result<()> {
        ctl::flush_over();
        let class = match timeout {
            None => "none",
            Some(d) if d.is_zero() => "zero",
            Some(_) => "timer",
        };
        ctl::point("x.wait.enter", class);
        let r = self.inner.wait(timeout).await;
        self.last.set(match &r {
            Ok(()) => "ready",
            Err(e) if e.kind() == io::ErrorKind::TimedOut => "timedout",
            Err(e) if e.kind() == io::ErrorKind::Interrupted => "interrupted",
            Err(_) => "error",
        });
        r
    }

    fn clear(&self) -> io::Result<()> {
        ctl::point("x.clear", self.last.get());
        self.inner.clear()
    }
}

impl<A: Adapter> Deref for Steer<A> {
    type Target = Runtime;

    fn deref(&self) -> &Runtime {
        &self.inner
    }
}

pub fn build_runtime(driver: &str) -> Runtime {
    let mut pb = ProactorBuilder::new();
    pb.driver_type(if driver == "poll" { DriverType::Poll } else { DriverType::IoUring });
    Runtime::builder().with_proactor(pb).build().expect("runtime")
}

fn spawn_all(rt: &Runtime, env: &Arc<Env>) -> Target {
    let mut joins = vec![];
    for t in &env.prog.tasks {
        let h = rt.spawn(TaskFut(Target::new(env, t, vec![])));
        joins.push((t.clone(), h));
    }
    Target::new(env, "main", joins)
}

async fn through_compat<A: Adapter>(driver: &str, env: &Arc<Env>) -> Outcome {
    let rt = build_runtime(driver);
    let poll_fd = rt.as_raw_fd();
    let before = eventfds();
    let compat = RuntimeCompat::<Steer<A>>::new(rt).expect("RuntimeCompat::new");
    let new: Vec<_> = eventfds().into_iter().filter(|f| !before.contains(f)).collect();
    *env.watch_fd.lock().unwrap() = if driver == "poll" {
        Some(poll_fd)
    } else if new.len() == 1 {
        Some(new[0])
    } else {
        None
    };
    *env.ring_fd.lock().unwrap() = if driver == "poll" { None } else { Some(poll_fd) };
    *env.rt_waker.lock().unwrap() = Some(compat.waker());
    let main = spawn_all(&compat, env);
    let out = compat.execute(main).await;
    *env.watch_fd.lock().unwrap() = None;
    *env.ring_fd.lock().unwrap() = None;
    *env.rt_waker.lock().unwrap() = None;
    out
}

/// Run the program of `env` on the calling thread. host: "block_on" | "tokio" | "tokio_mt" | "futures".
pub fn run_program(host: &str, driver: &str, env: &Arc<Env>) -> Outcome {
    match host {
        "block_on" => {
            let rt = build_runtime(driver);
            *env.rt_waker.lock().unwrap() = Some(rt.waker());
            let main = spawn_all(&rt, env);
            let out = rt.block_on(main);
            *env.rt_waker.lock().unwrap() = None;
            out
        }
        "tokio" => {
            let trt = tokio::runtime::Builder::new_current_thread().enable_all().build().expect("tokio");
            trt.block_on(through_compat::<TokioAdapter>(driver, env))
        }
        "tokio_mt" => {
            let trt = tokio::runtime::Builder::new_multi_thread().worker_threads(2).enable_all().build().expect("tokio");
            trt.block_on(through_compat::<TokioAdapter>(driver, env))
        }
        "futures" => {
            // the async-io reactor creates its own descriptors on first use: not while we look for the adapter's
            {
                if let Ok((a, _b)) = std::os::unix::net::UnixStream::pair() {
                    let _ = async_io::Async::new(a);
                }
            }
            futures_executor::block_on(through_compat::<FuturesAdapter>(driver, env))
        }
        other => panic!("unknown host {other}"),
    }
}
