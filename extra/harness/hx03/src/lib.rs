//! extension harness hx03
