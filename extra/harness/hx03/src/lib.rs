//! extension harness hx03: compio-compat RuntimeCompat under the real tokio / async-io adapters (check X03)
pub mod ctl;
pub mod prog;
pub mod run;
