//! Schedule controller for X03 (after harness/hdrv/src/ctl.rs): one steered role, the thread that runs
//! `RuntimeCompat::execute` ("R").  R parks at the filtered sites (hooks of the driver behind cfg(compio_verif),
//! points of the harness' wrapper adapter and futures) until the controller grants it a turn.  Hooks hit by other
//! threads (waking threads, pool threads) never park; a few of them are counted so that the controller can wait
//! until an outside event has taken effect.
use std::{
    cell::Cell,
    collections::HashSet,
    sync::{
        Condvar, Mutex, OnceLock,
        atomic::{AtomicBool, AtomicU64, Ordering},
    },
    thread::ThreadId,
    time::{Duration, Instant},
};

#[derive(Clone, Debug)]
pub struct Arrival {
    pub site: &'static str,
    pub arg: String,
}

#[derive(Default)]
struct Inner {
    r: Option<ThreadId>,
    parked: Option<Arrival>,
    grants: u64,
    arrivals: u64,
    finished: bool,
    free_run: bool,
    filter: HashSet<&'static str>,
    log: Vec<Arrival>,
}

struct Ctl {
    m: Mutex<Inner>,
    cv: Condvar,
}

static CTL: OnceLock<Ctl> = OnceLock::new();
/// pool threads that finished a job completely (closure, completed.send, waker.wake)
pub static POOL_DONE: AtomicU64 = AtomicU64::new(0);
/// eventfd / poller notifications written by threads other than R
pub static NOTIFY_WRITES: AtomicU64 = AtomicU64::new(0);
static INSTALLED: AtomicBool = AtomicBool::new(false);

thread_local! {
    /// R only: inside Proactor::flush (its awake.reset is not a site of its own)
    static IN_FLUSH: Cell<bool> = const { Cell::new(false) };
    /// R only: ordinal of the next awake.set inside the current Proactor::poll
    static SET_NO: Cell<u32> = const { Cell::new(1) };
}

fn ctl() -> &'static Ctl {
    CTL.get_or_init(|| Ctl { m: Mutex::new(Inner::default()), cv: Condvar::new() })
}

fn is_r() -> bool {
    let g = ctl().m.lock().unwrap_or_else(|e| e.into_inner());
    g.r == Some(std::thread::current().id())
}

/// The hook sink installed into compio_log::verif.
fn sink(site: &'static str, _a: u64, _b: u64) {
    match site {
        "pool.w.done" => {
            POOL_DONE.fetch_add(1, Ordering::SeqCst);
            return;
        }
        "notify.write" => {
            if !is_r() {
                NOTIFY_WRITES.fetch_add(1, Ordering::SeqCst);
            }
            return;
        }
        "drv.flush" | "awake.reset" | "awake.set" => {}
        _ => return,
    }
    if !is_r() {
        return;
    }
    match site {
        "drv.flush" => {
            IN_FLUSH.with(|c| c.set(true));
            point("drv.flush", "");
        }
        "awake.reset" => {
            if IN_FLUSH.with(|c| c.get()) {
                return;
            }
            SET_NO.with(|c| c.set(1));
            point("awake.reset", "");
        }
        "awake.set" => {
            let n = SET_NO.with(|c| {
                let n = c.get();
                c.set(n + 1);
                n
            });
            point("awake.set", if n == 1 { "1" } else { "2" });
        }
        _ => {}
    }
}

/// Called by the wrapper adapter when Adapter::wait starts: the flush is over.
pub fn flush_over() {
    IN_FLUSH.with(|c| c.set(false));
}

/// Install the controller as hook sink and reset it.
pub fn reset(sites: &[&'static str]) {
    let c = ctl();
    let mut g = c.m.lock().unwrap_or_else(|e| e.into_inner());
    *g = Inner::default();
    g.filter = sites.iter().copied().collect();
    drop(g);
    if !INSTALLED.swap(true, Ordering::SeqCst) {
        compio_log::verif::set_sink(Some(sink));
    }
}

/// Count pool / notify hooks without steering anybody (free-running binaries).
pub fn install_counters_only() {
    reset(&[]);
    free_run();
}

/// The calling thread is R from now on.
pub fn register() {
    let c = ctl();
    let mut g = c.m.lock().unwrap_or_else(|e| e.into_inner());
    g.r = Some(std::thread::current().id());
    IN_FLUSH.with(|c| c.set(false));
    SET_NO.with(|c| c.set(1));
}

/// R is done (no more turns).
pub fn finish() {
    let c = ctl();
    let mut g = c.m.lock().unwrap_or_else(|e| e.into_inner());
    if g.r == Some(std::thread::current().id()) {
        g.finished = true;
        g.r = None;
    }
    c.cv.notify_all();
}

/// A site. Only R parks, and only at filtered sites while the controller is steering.
pub fn point(site: &'static str, arg: &str) {
    let c = ctl();
    let mut g = c.m.lock().unwrap_or_else(|e| e.into_inner());
    if g.r != Some(std::thread::current().id()) {
        return;
    }
    let arr = Arrival { site, arg: arg.to_string() };
    if g.log.len() < 20_000 {
        g.log.push(arr.clone());
    }
    if g.free_run || !g.filter.contains(site) {
        return;
    }
    g.parked = Some(arr);
    g.arrivals += 1;
    c.cv.notify_all();
    while g.grants < g.arrivals && !g.free_run {
        g = c.cv.wait(g).unwrap_or_else(|e| e.into_inner());
    }
    g.parked = None;
    c.cv.notify_all();
}

/// Wait until R is parked at a site (Some), or finished / timed out (None).
pub fn wait_parked(ms: u64) -> Option<Arrival> {
    let c = ctl();
    let t0 = Instant::now();
    let mut g = c.m.lock().unwrap_or_else(|e| e.into_inner());
    loop {
        if let Some(a) = &g.parked {
            if g.grants < g.arrivals {
                return Some(a.clone());
            }
        }
        if g.finished {
            return None;
        }
        let left = (ms as i64) - t0.elapsed().as_millis() as i64;
        if left <= 0 {
            return None;
        }
        let (g2, _) = c.cv.wait_timeout(g, Duration::from_millis(left.min(50) as u64)).unwrap_or_else(|e| e.into_inner());
        g = g2;
    }
}

pub fn is_finished() -> bool {
    ctl().m.lock().unwrap_or_else(|e| e.into_inner()).finished
}

/// Let R run to its next site.
pub fn grant() {
    let c = ctl();
    let mut g = c.m.lock().unwrap_or_else(|e| e.into_inner());
    g.grants = g.arrivals;
    c.cv.notify_all();
}

/// Stop steering: R is released and nothing parks any more.
pub fn free_run() {
    let c = ctl();
    let mut g = c.m.lock().unwrap_or_else(|e| e.into_inner());
    g.free_run = true;
    c.cv.notify_all();
}

pub fn take_log() -> Vec<Arrival> {
    std::mem::take(&mut ctl().m.lock().unwrap_or_else(|e| e.into_inner()).log)
}
