//! C03 compat leg (alias X03): replay CompatLoop schedules (spec/Gen_CompatLoop.tla) on a real compio Runtime driven by the real
//! compio-compat loop over the real tokio / async-io adapters.
//!
//! usage: x03_replay <cases.jsonl> [--timer-ms N]
//!
//! R = the thread inside RuntimeCompat::execute; it parks at the sites of hx03::ctl and the schedule grants its
//! turns ("R" steps, with the site / argument / observation the model expects) or makes the outside world move
//! while R is parked ("E" steps: cross-thread wake, descriptor readable, blocking job done, deadline passed).
//! Contract oracle (independent of the model): after the schedule everything the program waits for has happened,
//! so execute() must return within the watchdog, with the result the same program gives under Runtime::block_on;
//! no timer fires early.
use std::{
    collections::BTreeMap,
    sync::{Arc, atomic::Ordering, mpsc},
    time::{Duration, Instant},
};

use hcore::out::{Report, cases_from_arg, panic_msg};
use hx03::{
    ctl,
    prog::{Env, Outcome, Prog, cq_tail, polladd_armed, readable_within},
    run::run_program,
};
use serde_json::{Value, json};

const SITES: &[&str] = &["x.main", "x.task", "drv.flush", "x.wait.enter", "x.clear", "awake.reset", "awake.set"];
const WATCHDOG_DEFAULT: Duration = Duration::from_secs(20);

/// The watchdog (the negative control of the check shortens it: it knows that its case hangs).
fn watchdog() -> Duration {
    std::env::var("VERIF_X03_WATCHDOG_MS").ok().and_then(|s| s.parse().ok()).map(Duration::from_millis).unwrap_or(WATCHDOG_DEFAULT)
}

fn spawn_run(host: String, driver: String, env: Arc<Env>, steer: bool) -> (mpsc::Receiver<Result<Outcome, String>>, std::thread::JoinHandle<()>) {
    let (tx, rx) = mpsc::channel();
    let h = std::thread::spawn(move || {
        if steer {
            ctl::register();
        }
        let r = std::panic::catch_unwind(std::panic::AssertUnwindSafe(|| run_program(&host, &driver, &env)));
        if steer {
            ctl::finish();
        }
        let _ = tx.send(r.map_err(panic_msg));
    });
    (rx, h)
}

/// The pool threads of a finished run may still be on their way out of their job (the hook that counts them comes
/// after the wake): wait for them, so that the next run does not mistake them for its own.
fn quiesce_pool(d0: u64, jobs: usize) {
    let t0 = Instant::now();
    while ctl::POOL_DONE.load(Ordering::SeqCst) < d0 + jobs as u64 && t0.elapsed() < Duration::from_secs(3) {
        std::thread::sleep(Duration::from_micros(200));
    }
}

/// The same program under Runtime::block_on, everything fired by a free-running thread.
fn reference(prog: &Prog, driver: &str) -> Result<Outcome, String> {
    let d0 = ctl::POOL_DONE.load(Ordering::SeqCst);
    let env = Env::new(prog, Duration::from_millis(20));
    let (rx, h) = spawn_run("block_on".into(), driver.into(), env.clone(), false);
    let e2 = env.clone();
    let firer = std::thread::spawn(move || {
        let t0 = Instant::now();
        let mut pending: Vec<String> = e2.prog.wakers.iter().map(|(w, _)| w.clone()).collect();
        for (o, _) in &e2.prog.ops {
            e2.fire_op(o);
        }
        for (j, _) in &e2.prog.jobs {
            e2.fire_job(j);
        }
        while !pending.is_empty() && t0.elapsed() < Duration::from_secs(10) {
            pending.retain(|w| !e2.fire_wake(w));
            std::thread::sleep(Duration::from_millis(1));
        }
    });
    let r = rx.recv_timeout(watchdog());
    let _ = firer.join();
    quiesce_pool(d0, prog.jobs.len());
    match r {
        Ok(r) => {
            let _ = h.join();
            r
        }
        Err(_) => Err("reference run under block_on did not finish".into()),
    }
}

fn trace() -> bool {
    std::env::var("VERIF_X03_TRACE").is_ok()
}

struct CaseResult {
    diverged: Option<String>,
    timing: bool,
    executed: usize,
}

/// What the controller can see of the kernel side before an outside event.
struct Before {
    tail: Option<u64>,
    armed: bool,
    writes: u64,
}

fn before(env: &Env) -> Before {
    let ring = *env.ring_fd.lock().unwrap();
    Before {
        tail: ring.and_then(cq_tail),
        armed: ring.map(polladd_armed).unwrap_or(true),
        writes: ctl::NOTIFY_WRITES.load(Ordering::SeqCst),
    }
}

/// Wait until the event has reached the runtime's side of the kernel: io_uring: the completion queue tail has
/// moved (read from the ring's fdinfo); polling driver: the poller's descriptor is readable.
fn wait_effect(env: &Env, b: &Before, ms: u64) -> bool {
    let t0 = Instant::now();
    let ring = *env.ring_fd.lock().unwrap();
    loop {
        match (ring, b.tail) {
            (Some(fd), Some(t)) => {
                if cq_tail(fd).map(|n| n != t).unwrap_or(true) {
                    return true;
                }
            }
            _ => {
                let Some(fd) = *env.watch_fd.lock().unwrap() else { return true };
                if readable_within(fd, 20) {
                    return true;
                }
            }
        }
        if t0.elapsed() > Duration::from_millis(ms) {
            return false;
        }
        std::thread::sleep(Duration::from_micros(100));
    }
}

fn env_step(env: &Arc<Env>, ev: &str, id: &str) -> Result<(), String> {
    let b = before(env);
    match ev {
        "wake" => {
            let e2 = env.clone();
            let id2 = id.to_string();
            let ok = std::thread::spawn(move || e2.fire_wake(&id2)).join().map_err(|_| "waking thread panicked".to_string())?;
            if !ok {
                return Err(format!("target of {id} has not been polled yet"));
            }
        }
        "op" => {
            env.fire_op(id);
            if !wait_effect(env, &b, 3000) {
                return Err(format!("the completion of {id} did not show up in the kernel within 3 s"));
            }
            return Ok(());
        }
        "job" => {
            let d0 = ctl::POOL_DONE.load(Ordering::SeqCst);
            env.fire_job(id);
            let t0 = Instant::now();
            while ctl::POOL_DONE.load(Ordering::SeqCst) == d0 {
                if t0.elapsed() > Duration::from_secs(8) {
                    return Err(format!("pool thread of {id} did not finish"));
                }
                std::thread::sleep(Duration::from_micros(200));
            }
        }
        "due" => {
            let Some(dl) = env.deadline(id) else { return Err(format!("timer {id} was never armed")) };
            let until = dl + Duration::from_millis(2);
            let now = Instant::now();
            if until > now {
                std::thread::sleep(until - now);
            }
            return Ok(());
        }
        other => return Err(format!("unknown event {other}")),
    }
    if ctl::NOTIFY_WRITES.load(Ordering::SeqCst) != b.writes && b.armed {
        // the wake wrote the notifier, whose armed poll posts a completion entry
        if !wait_effect(env, &b, 3000) {
            return Err(format!("the notifier completion of {ev} {id} did not show up in the kernel within 3 s"));
        }
    }
    Ok(())
}

/// Let R run until it parks again or finishes.
fn settle(ms: u64) -> bool {
    let t0 = Instant::now();
    loop {
        if ctl::wait_parked(20).is_some() || ctl::is_finished() {
            return true;
        }
        if t0.elapsed() > Duration::from_millis(ms) {
            return false;
        }
    }
}

fn steer(case: &Value, env: &Arc<Env>, rep: &mut Report) -> CaseResult {
    let steps = case["steps"].as_array().unwrap();
    let mut res = CaseResult { diverged: None, timing: false, executed: 0 };
    let mut asleep = false; // R was granted a turn that blocks in the host
    let mut prev_poll: Option<(String, Vec<String>)> = None; // (target, expected obs) of the last x.main / x.task turn
    let mut due_done: Vec<String> = vec![]; // timers whose deadline the schedule has let pass
    // the model lets a deadline pass only in its "due" step: a deadline that passes earlier (loaded machine) makes the
    // real loop run ahead of the schedule - that is a timing artefact of the steering, not a verdict
    let overtaken = |env: &Env, due_done: &Vec<String>| {
        let now = Instant::now();
        env.deadlines.lock().unwrap().iter().any(|(t, d)| *d <= now && !due_done.contains(t))
    };
    for (i, st) in steps.iter().enumerate() {
        rep.steps += 1;
        let site = st["site"].as_str().unwrap();
        let arg = st["arg"].as_str().unwrap_or("");
        if st["r"] == "E" {
            if asleep && st["at"].as_str().unwrap_or("parked") != "parked" {
                // the model has R back at a site when this happens: the previous event (or the host's timer) ended
                // its sleep; wait for it, or this event could still reach the sleeping loop
                if ctl::wait_parked(8_000).is_none() && res.diverged.is_none() {
                    res.diverged = Some(format!("step {i}: R did not come back from the host's wait (the model has it at {})", st["at"]));
                }
                asleep = false;
            }
            let t0 = Instant::now();
            let er = env_step(env, site, arg);
            if trace() {
                eprintln!("  E {site}({arg}) took {:?} watch_fd={:?}", t0.elapsed(), env.watch_fd.lock().unwrap());
            }
            if let Err(e) = er {
                res.diverged = Some(format!("step {i}: {e}"));
                break;
            }
            if site == "due" {
                due_done.push(arg.to_string());
            }
            res.executed += 1;
            continue;
        }
        let wait_ms = if asleep { 8_000 } else { 10_000 };
        let mut arrived = ctl::wait_parked(wait_ms);
        // the observation of the previous poll turn is complete now that R has reached its next site
        if let Some((tgt, want)) = prev_poll.take() {
            let got = env.polls.lock().unwrap().iter().rev().find(|(t, _)| *t == tgt).map(|(_, o)| o.clone());
            if got.as_ref() != Some(&want) && res.diverged.is_none() {
                if overtaken(env, &due_done) {
                    res.timing = true;
                }
                res.diverged = Some(format!("step {}: poll of {tgt} observed {:?}, the model expects {:?}", i - 1, got, want));
            }
        }
        let matches = |a: &ctl::Arrival| a.site == site && a.arg == arg;
        if let Some(a) = &arrived {
            if !matches(a) {
                if site == "x.wait.enter" && arg == "timer" && a.site == "x.wait.enter" && a.arg == "zero" {
                    res.timing = true; // the deadline passed while the schedule was being steered
                }
                if res.diverged.is_none() {
                    if overtaken(env, &due_done) {
                        res.timing = true;
                    }
                    res.diverged = Some(format!("step {i}: R is at {}({}) but the model expects {site}({arg})", a.site, a.arg));
                }
                // keep steering if possible: run through up to 12 unexpected sites
                let mut ok = false;
                for _ in 0..12 {
                    ctl::grant();
                    if !settle(3000) {
                        break;
                    }
                    match ctl::wait_parked(10) {
                        Some(n) if matches(&n) => {
                            ok = true;
                            break;
                        }
                        Some(_) => continue,
                        None => break,
                    }
                }
                if !ok {
                    break;
                }
                arrived = ctl::wait_parked(10);
            }
        }
        if arrived.is_none() {
            if res.diverged.is_none() {
                if overtaken(env, &due_done) {
                    res.timing = true;
                }
                res.diverged = Some(format!(
                    "step {i}: R did not arrive at {site}({arg}) within {wait_ms} ms (finished={}, asleep in the host={asleep})",
                    ctl::is_finished()
                ));
            }
            break;
        }
        if site == "x.wait.enter" && arg == "timer" {
            // the model lets time pass only while everything sleeps: the deadline must still be ahead
            let soon = Instant::now() + Duration::from_millis(15);
            if env.deadlines.lock().unwrap().values().any(|d| *d <= soon) {
                res.timing = true;
            }
        }
        if site == "x.main" || site == "x.task" {
            let mut want: Vec<String> = st["obs"].as_array().map(|a| a.iter().map(|x| x.as_str().unwrap().to_string()).collect()).unwrap_or_default();
            want.sort();
            prev_poll = Some((arg.to_string(), want));
        }
        if trace() {
            eprintln!("  R {site}({arg}) arrived {:?}", arrived);
        }
        ctl::grant();
        res.executed += 1;
        asleep = st["blocks"].as_bool().unwrap_or(false);
        if !asleep && !settle(10_000) && res.diverged.is_none() {
            res.diverged = Some(format!("step {i}: after {site}({arg}) R neither reached a site nor finished within 10 s (asleep in the host?)"));
        }
    }
    res
}

/// Returns (timing inconclusive, number of attempts).
fn run_case(case: &Value, refs: &mut BTreeMap<String, Result<Outcome, String>>, rep: &mut Report, timer_ms: u64) -> (bool, u32) {
    let driver = case["driver"].as_str().unwrap().to_string();
    let host = case["host"].as_str().unwrap().to_string();
    let prog = Prog::from_json(&case["prog"]);
    let complete = case["complete"].as_bool().unwrap_or(false);
    let dead = case["dead"].as_bool().unwrap_or(false);
    // which window of a repaired defect the schedule passes through (marked by the generator): names the class of
    // schedule in the signature of a hang
    let dev = match (case["dev1"].as_bool().unwrap_or(false), case["dev2"].as_bool().unwrap_or(false)) {
        (true, false) => "blocking-wake-between-set-awake",
        (false, true) => "poll-blocking-skips-drain",
        (true, true) => "both-windows",
        (false, false) => "none",
    };
    let key = format!("{driver}|{}", case["prog"]);
    let reference = refs.entry(key).or_insert_with(|| reference(&prog, &driver)).clone();
    let sig_base = |what: &str| json!({"site": "compat", "what": what, "driver": driver, "host": host});

    let mut tl = timer_ms;
    let mut attempt = 0;
    loop {
        attempt += 1;
        let env = Env::new(&prog, Duration::from_millis(tl));
        let pool0 = ctl::POOL_DONE.load(Ordering::SeqCst);
        ctl::reset(SITES);
        let (rx, handle) = spawn_run(host.clone(), driver.clone(), env.clone(), true);
        let ts = Instant::now();
        let r = steer(case, &env, rep);
        if trace() {
            eprintln!("case steered in {:?} ({} steps)", ts.elapsed(), r.executed);
        }
        if r.timing && attempt < 3 {
            // a deadline passed while the schedule was being steered (loaded machine): not a verdict, run the case
            // again with longer timers.  The run is released and torn down first.
            ctl::free_run();
            env.fire_all();
            for (o, _) in &prog.ops {
                env.fire_op(o);
            }
            let t0 = Instant::now();
            let mut got = None;
            while t0.elapsed() < watchdog() {
                if let Ok(x) = rx.recv_timeout(Duration::from_millis(50)) {
                    got = Some(x);
                    break;
                }
                env.nudge();
            }
            if got.is_some() {
                let _ = handle.join();
            }
            quiesce_pool(pool0, prog.jobs.len());
            tl *= 4;
            continue;
        }
        // ---- free run + oracle
        ctl::free_run();
        let steps_n = case["steps"].as_array().unwrap().len();
        let mut outcome: Option<Result<Outcome, String>> = None;
        let mut hung = false;
        if dead && r.diverged.is_none() {
            // the model predicts that the loop now sleeps over a completion: confirm on the real code
            match rx.recv_timeout(Duration::from_millis(1200)) {
                Ok(x) => {
                    outcome = Some(x);
                    rep.problem("mismatch", sig_base("model-predicts-lost-completion"),
                        format!("the model ends this schedule asleep over an undelivered completion ({dev}) but the real loop finished"), case, r.executed);
                }
                Err(_) => hung = true,
            }
        } else {
            if !complete || r.diverged.is_some() {
                // cut or diverged schedule: let everything that has NOT happened yet happen (never a second time:
                // that could rescue a loop that lost the first one)
                let e2 = env.clone();
                std::thread::spawn(move || e2.fire_remaining());
            }
            match rx.recv_timeout(watchdog()) {
                Ok(x) => outcome = Some(x),
                Err(_) => hung = true,
            }
        }
        if hung {
            HANGS.fetch_add(1, Ordering::SeqCst);
            let mut sig = sig_base("hang");
            sig["dev"] = json!(dev);
            rep.problem(
                "contract",
                sig,
                format!(
                    "execute() did not return although everything the program waits for has happened (schedule position {}/{steps_n}, model: complete={complete} dead={dead} deviation={dev}); {}",
                    r.executed,
                    r.diverged.clone().unwrap_or_default()
                ),
                case,
                r.executed,
            );
            // rescue: a wake of the driver forces one more round of the loop
            let t0 = Instant::now();
            while t0.elapsed() < Duration::from_secs(10) {
                env.nudge();
                if let Ok(x) = rx.recv_timeout(Duration::from_millis(25)) {
                    outcome = Some(x);
                    break;
                }
                if t0.elapsed() > Duration::from_secs(3) {
                    env.fire_all();
                }
            }
        } else if let Some(d) = &r.diverged {
            if !r.timing {
                rep.problem("mismatch", sig_base("schedule"), d.clone(), case, r.executed);
            }
        }
        match outcome {
            Some(Ok(o)) => {
                let _ = handle.join();
                match &reference {
                    Ok(want) if *want == o => {}
                    Ok(want) => rep.problem(
                        "contract",
                        sig_base("result-differs"),
                        format!("result through RuntimeCompat {} differs from the result under block_on {}", o.to_json(), want.to_json()),
                        case,
                        r.executed,
                    ),
                    Err(e) => rep.problem("contract", json!({"site": "compat", "what": "block-on-reference", "driver": driver}), e.clone(), case, 0),
                }
            }
            Some(Err(p)) => {
                let _ = handle.join();
                rep.problem("panic", sig_base("panic"), format!("panic inside RuntimeCompat::execute: {p}"), case, r.executed);
            }
            None => {
                rep.problem("hang", sig_base("thread-does-not-exit"), "the thread inside execute() did not return even after being woken repeatedly; leaked".into(), case, r.executed);
            }
        }
        if env.timer_early.load(Ordering::SeqCst) {
            rep.problem("contract", sig_base("timer-early"), "a sleep completed before its duration had elapsed".into(), case, r.executed);
        }
        let log = ctl::take_log();
        if trace() {
            let tail: Vec<String> = log.iter().rev().take(30).rev().map(|a| format!("{}({})", a.site, a.arg)).collect();
            eprintln!("R passed {} sites; last: {}", log.len(), tail.join(" "));
        }
        env.fire_all();
        quiesce_pool(pool0, prog.jobs.len());
        if trace() {
            eprintln!("case done after {:?}", ts.elapsed());
        }
        return (r.timing, attempt);
    }
}

/// Runs that ended asleep in the host: each costs a watchdog; after a few the remaining cases are abandoned.
static HANGS: std::sync::atomic::AtomicU64 = std::sync::atomic::AtomicU64::new(0);
const MAX_HANGS: u64 = 6;

fn main() {
    if std::env::var("VERIF_SHOW_PANICS").is_err() {
        hcore::out::silence_panics();
    }
    let args: Vec<String> = std::env::args().collect();
    let timer_ms = args.iter().position(|a| a == "--timer-ms").and_then(|i| args.get(i + 1)).and_then(|s| s.parse().ok()).unwrap_or(250u64);
    let mut rep = Report::new();
    let mut refs = BTreeMap::new();
    let mut inconclusive = 0u64;
    let mut retried = 0u64;
    let mut abandoned = 0u64;
    for case in cases_from_arg() {
        if HANGS.load(Ordering::SeqCst) >= MAX_HANGS {
            // the loop under test keeps falling asleep: what was found is reported, the rest is not replayed
            abandoned += 1;
            rep.cases += 1;
            continue;
        }
        let r = std::panic::catch_unwind(std::panic::AssertUnwindSafe(|| run_case(&case, &mut refs, &mut rep, timer_ms)));
        match r {
            Err(e) => rep.problem("panic", json!({"site": "compat", "what": "harness"}), format!("panic in the harness: {}", panic_msg(e)), &case, 0),
            Ok((timing, attempts)) => {
                if timing {
                    inconclusive += 1;
                }
                retried += (attempts - 1) as u64;
            }
        }
        rep.cases += 1;
        if rep.cases % 20 == 0 {
            eprintln!("x03_replay: {} cases", rep.cases);
        }
    }
    rep.set("timing_inconclusive", json!(inconclusive));
    rep.set("timing_retries", json!(retried));
    rep.set("abandoned_after_hangs", json!(abandoned));
    rep.finish();
    // threads of runs that hung for good may still be alive
    std::process::exit(0);
}
