//! X03, free-running leg: the programs of the model on real runtimes driven through RuntimeCompat by tokio
//! (current-thread and multi-thread) and async-io, both drivers, the outside world firing its events from another
//! thread at seeded random moments.  Nothing is steered.
//!
//! usage: x03_stress <programs.jsonl> [--seed N] [--iters K] [--hosts a,b] [--drivers a,b]
//!
//! Contract: execute() returns within the watchdog once every event has been fired, with the result the same
//! program gives under Runtime::block_on; no sleep completes early.
use std::{
    collections::BTreeMap,
    sync::{Arc, atomic::Ordering, mpsc},
    time::{Duration, Instant},
};

use hcore::out::{Report, cases_from_arg, panic_msg};
use hx03::{
    ctl,
    prog::{Env, Outcome, Prog},
    run::run_program,
};
use rand::{RngExt, SeedableRng, rngs::StdRng, seq::SliceRandom};
use serde_json::{Value, json};


fn spawn_run(host: &str, driver: &str, env: &Arc<Env>) -> (mpsc::Receiver<Result<Outcome, String>>, std::thread::JoinHandle<()>) {
    let (tx, rx) = mpsc::channel();
    let (host, driver, env) = (host.to_string(), driver.to_string(), env.clone());
    let h = std::thread::spawn(move || {
        let r = std::panic::catch_unwind(std::panic::AssertUnwindSafe(|| run_program(&host, &driver, &env)));
        let _ = tx.send(r.map_err(panic_msg));
    });
    (rx, h)
}

/// Fire every event of the program once, in a seeded random order with seeded random pauses.
fn fire_randomly(env: &Arc<Env>, rng: &mut StdRng, max_pause_us: u64) -> std::thread::JoinHandle<()> {
    let mut evs: Vec<(u8, String)> = vec![];
    for (w, _) in &env.prog.wakers {
        evs.push((0, w.clone()));
    }
    for (o, _) in &env.prog.ops {
        evs.push((1, o.clone()));
    }
    for (j, _) in &env.prog.jobs {
        evs.push((2, j.clone()));
    }
    evs.shuffle(rng);
    let pauses: Vec<u64> = evs.iter().map(|_| if rng.random_range(0..4) == 0 { 0 } else { rng.random_range(0..=max_pause_us) }).collect();
    let e2 = env.clone();
    std::thread::spawn(move || {
        for ((kind, name), pause) in evs.into_iter().zip(pauses) {
            if pause > 0 {
                std::thread::sleep(Duration::from_micros(pause));
            }
            match kind {
                0 => {
                    // a waker exists once the target has been polled
                    let t0 = Instant::now();
                    while !e2.fire_wake(&name) && t0.elapsed() < Duration::from_secs(10) {
                        std::thread::sleep(Duration::from_micros(100));
                    }
                }
                1 => e2.fire_op(&name),
                _ => e2.fire_job(&name),
            }
        }
    })
}

fn main() {
    if std::env::var("VERIF_SHOW_PANICS").is_err() {
        hcore::out::silence_panics();
    }
    let args: Vec<String> = std::env::args().collect();
    let opt = |k: &str| args.iter().position(|a| a == k).and_then(|i| args.get(i + 1)).cloned();
    let seed: u64 = opt("--seed").and_then(|s| s.parse().ok()).unwrap_or(1);
    let iters: usize = opt("--iters").and_then(|s| s.parse().ok()).unwrap_or(3);
    let hosts: Vec<String> = opt("--hosts").unwrap_or("tokio,tokio_mt,futures".into()).split(',').map(|s| s.to_string()).collect();
    let drivers: Vec<String> = opt("--drivers").unwrap_or("iour,poll".into()).split(',').map(|s| s.to_string()).collect();
    let watchdog = Duration::from_millis(opt("--watchdog-ms").and_then(|s| s.parse().ok()).unwrap_or(20_000u64));
    ctl::install_counters_only();
    let mut rng = StdRng::seed_from_u64(seed);
    let mut rep = Report::new();
    let mut refs: BTreeMap<String, Result<Outcome, String>> = BTreeMap::new();
    let progs: Vec<Value> = cases_from_arg().collect();
    let mut per_host: BTreeMap<String, u64> = BTreeMap::new();
    for pj in &progs {
        let prog = Prog::from_json(&pj["prog"]);
        let has_jobs = !prog.jobs.is_empty();
        for driver in &drivers {
            // reference under block_on
            let key = format!("{driver}|{}", pj["prog"]);
            if !refs.contains_key(&key) {
                let env = Env::new(&prog, Duration::from_millis(5));
                let (rx, h) = spawn_run("block_on", driver, &env);
                let f = fire_randomly(&env, &mut rng, 500);
                let r = match rx.recv_timeout(watchdog) {
                    Ok(r) => {
                        let _ = h.join();
                        r
                    }
                    Err(_) => Err("the program did not finish under block_on".to_string()),
                };
                let _ = f.join();
                refs.insert(key.clone(), r);
            }
            let reference = refs[&key].clone();
            for host in &hosts {
                for it in 0..iters {
                    let case = json!({"prog": pj["prog"], "driver": driver, "host": host, "seed": seed, "iter": it});
                    let timer = Duration::from_millis(rng.random_range(2..25));
                    let env = Env::new(&prog, timer);
                    let (rx, h) = spawn_run(host, driver, &env);
                    let pause = [0u64, 50, 400, 3000][rng.random_range(0..4)];
                    let f = fire_randomly(&env, &mut rng, pause);
                    let _ = f.join();
                    let mut outcome = rx.recv_timeout(watchdog).ok();
                    if outcome.is_none() {
                        rep.problem(
                            "contract",
                            json!({"site": "compat-stress", "what": "hang", "driver": driver, "host": host, "jobs": has_jobs}),
                            format!("execute() did not return within {watchdog:?} after every event of the program had been fired"),
                            &case,
                            it,
                        );
                        let t0 = Instant::now();
                        while t0.elapsed() < Duration::from_secs(10) {
                            env.nudge();
                            if let Ok(x) = rx.recv_timeout(Duration::from_millis(25)) {
                                outcome = Some(x);
                                break;
                            }
                        }
                    }
                    match outcome {
                        Some(Ok(o)) => {
                            let _ = h.join();
                            match &reference {
                                Ok(want) if *want == o => {}
                                Ok(want) => rep.problem(
                                    "contract",
                                    json!({"site": "compat-stress", "what": "result-differs", "driver": driver, "host": host}),
                                    format!("through RuntimeCompat {} but under block_on {}", o.to_json(), want.to_json()),
                                    &case,
                                    it,
                                ),
                                Err(e) => rep.problem("contract", json!({"site": "compat-stress", "what": "block-on-reference", "driver": driver}), e.clone(), &case, it),
                            }
                        }
                        Some(Err(p)) => {
                            let _ = h.join();
                            rep.problem("panic", json!({"site": "compat-stress", "what": "panic", "driver": driver, "host": host}), format!("panic inside execute(): {p}"), &case, it);
                        }
                        None => rep.problem("hang", json!({"site": "compat-stress", "what": "thread-does-not-exit", "driver": driver, "host": host}), "leaked".into(), &case, it),
                    }
                    if env.timer_early.load(Ordering::SeqCst) {
                        rep.problem("contract", json!({"site": "compat-stress", "what": "timer-early", "driver": driver, "host": host}), "a sleep completed early".into(), &case, it);
                    }
                    env.fire_all();
                    rep.cases += 1;
                    rep.steps += (prog.wakers.len() + prog.ops.len() + prog.jobs.len() + prog.timers.len()) as u64;
                    *per_host.entry(format!("{host}/{driver}")).or_default() += 1;
                }
            }
        }
    }
    rep.set("runs_per_host_driver", json!(per_host));
    rep.finish();
    std::process::exit(0);
}
