use std::os::fd::{AsRawFd, FromRawFd, OwnedFd};
use std::time::Duration;
use tokio::io::{Interest, unix::AsyncFd};
fn efd() -> OwnedFd { unsafe { OwnedFd::from_raw_fd(libc::eventfd(0, libc::EFD_NONBLOCK | libc::EFD_CLOEXEC)) } }
fn wr(fd: &OwnedFd) { let v: u64 = 1; unsafe { libc::write(fd.as_raw_fd(), &v as *const u64 as *const _, 8) }; }
fn rd(fd: &OwnedFd) -> i64 { let mut v: u64 = 0; let r = unsafe { libc::read(fd.as_raw_fd(), &mut v as *mut u64 as *mut _, 8) }; if r < 0 { -1 } else { v as i64 } }
fn main() {
    let trt = tokio::runtime::Builder::new_current_thread().enable_all().build().unwrap();
    trt.block_on(async {
        let fd = efd();
        let afd = AsyncFd::with_interest(fd, Interest::READABLE).unwrap();
        // case 1: nothing readable, zero timeout
        let t0 = std::time::Instant::now();
        let r = tokio::time::timeout(Duration::ZERO, afd.readable()).await;
        println!("case1 not readable: {:?} after {:?}", r.is_ok(), t0.elapsed());
        // case 2: written before the wait, reactor has not turned since
        wr(afd.get_ref());
        let t0 = std::time::Instant::now();
        let r = tokio::time::timeout(Duration::ZERO, afd.readable()).await;
        println!("case2 written-before: ok={:?} after {:?}", r.is_ok(), t0.elapsed());
        if let Ok(Ok(mut g)) = r { g.clear_ready(); }
        println!("read -> {}", rd(afd.get_ref()));
        // case 3: written, read back (level low) before the reactor turns: edge dropped?
        wr(afd.get_ref());
        println!("read -> {}", rd(afd.get_ref()));
        let r = tokio::time::timeout(Duration::from_millis(30), afd.readable()).await;
        println!("case3 written+read before turn: ok={:?}", r.is_ok());
        // case 4: written twice, one readable+clear_ready, no read: does a second readable() complete? (edge: no)
        wr(afd.get_ref());
        let mut g = afd.readable().await.unwrap(); g.clear_ready(); drop(g);
        let r = tokio::time::timeout(Duration::from_millis(30), afd.readable()).await;
        println!("case4 still readable, no new write, after clear_ready: ok={:?}", r.is_ok());
        wr(afd.get_ref());
        let r = tokio::time::timeout(Duration::from_millis(30), afd.readable()).await;
        println!("case5 new write while level high: ok={:?}", r.is_ok());
    });
}
