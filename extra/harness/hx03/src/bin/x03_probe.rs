use std::os::fd::AsRawFd;
fn main() {
    let rt = compio_runtime::Runtime::new().unwrap();
    let fd = rt.as_raw_fd();
    rt.block_on(async { compio_runtime::time::sleep(std::time::Duration::from_millis(2)).await; });
    println!("{}", std::fs::read_to_string(format!("/proc/self/fdinfo/{fd}")).unwrap());
}
