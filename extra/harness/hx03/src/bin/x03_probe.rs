use compio_compat::{RuntimeCompat, TokioAdapter, FuturesAdapter};
use compio_runtime::Runtime;
fn main() {
    let trt = tokio::runtime::Builder::new_current_thread().enable_all().build().unwrap();
    let v = trt.block_on(async {
        let rt = RuntimeCompat::<TokioAdapter>::new(Runtime::new().unwrap()).unwrap();
        rt.execute(async { compio_runtime::time::sleep(std::time::Duration::from_millis(5)).await; 7 }).await
    });
    println!("tokio {v}");
    let v = futures_executor::block_on(async {
        let rt = RuntimeCompat::<FuturesAdapter>::new(Runtime::new().unwrap()).unwrap();
        rt.execute(async { compio_runtime::time::sleep(std::time::Duration::from_millis(5)).await; 8 }).await
    });
    println!("futures {v}");
}
