//! Makes the real source file compio-signal/src/unix/half_lock.rs (a private module of compio-signal)
//! reachable for replay_halflock: the file is compiled a second time, unchanged, as a module of the harness.
//! The location is derived from the `compio-signal` path dependency in Cargo.toml, so a private copy of the
//! tree (mutation trials) is followed automatically.
use std::{env, fs, path::PathBuf};

fn main() {
    let dir = PathBuf::from(env::var("CARGO_MANIFEST_DIR").unwrap());
    let manifest = fs::read_to_string(dir.join("Cargo.toml")).unwrap();
    let mut sig = None;
    for line in manifest.lines() {
        let l = line.trim();
        if l.starts_with("compio-signal") {
            if let Some(i) = l.find("path") {
                let rest = &l[i..];
                let a = rest.find('"').unwrap();
                let b = rest[a + 1..].find('"').unwrap();
                sig = Some(rest[a + 1..a + 1 + b].to_string());
            }
        }
    }
    let sig = sig.expect("compio-signal path dependency not found in Cargo.toml");
    let mut p = PathBuf::from(&sig);
    if p.is_relative() {
        p = dir.join(p);
    }
    let src = p.join("src/unix/half_lock.rs");
    assert!(src.exists(), "{} does not exist", src.display());
    let out = PathBuf::from(env::var("OUT_DIR").unwrap()).join("half_lock_wrap.rs");
    fs::write(
        &out,
        format!(
            "#[allow(dead_code, clippy::all)]\n#[path = \"{}\"]\npub mod half_lock;\n",
            src.display()
        ),
    )
    .unwrap();
    println!("cargo:rerun-if-changed={}", src.display());
    println!("cargo:rerun-if-changed=Cargo.toml");
    println!("cargo:rerun-if-changed=build.rs");
}
