//! Behaviour format of spec/Gen_Signal.tla and the comparison of a real observation with the model's
//! expectation after a step.
use serde_json::{Value, json};

#[derive(Clone, Debug)]
pub enum Act {
    Poll(usize),
    Drop(usize),
    /// signal name, thread, listener to park at (0 = none)
    Raise(String, usize, usize),
    /// thread whose parked handler continues
    Release(usize),
}

#[derive(Clone, Debug, PartialEq)]
pub struct Obs {
    /// per listener: "new" | "pend" | "done" | "busy"
    pub st: Vec<String>,
    pub wk: Vec<u64>,
    pub fl: Vec<bool>,
    /// handler installed for "a", "b"
    pub dp: (bool, bool),
    pub lk: u64,
    pub pk: Vec<usize>,
    pub bt: usize,
}

#[derive(Clone, Debug)]
pub struct Step {
    pub act: Act,
    pub x: Obs,
}

#[derive(Clone, Debug)]
pub struct Case {
    pub sig: Vec<String>,
    pub home: Vec<usize>,
    pub auto: bool,
    pub steps: Vec<Step>,
    pub raw: Value,
}

fn us(v: &Value) -> usize {
    v.as_u64().expect("number") as usize
}

pub fn parse_obs(x: &Value) -> Obs {
    let mut pk: Vec<usize> = x["pk"].as_array().map(|a| a.iter().map(us).collect()).unwrap_or_default();
    pk.sort();
    Obs {
        st: x["st"].as_array().unwrap().iter().map(|s| s.as_str().unwrap().to_string()).collect(),
        wk: x["wk"].as_array().unwrap().iter().map(|s| s.as_u64().unwrap()).collect(),
        fl: x["fl"].as_array().unwrap().iter().map(|s| s.as_bool().unwrap()).collect(),
        dp: (x["dp"]["a"].as_bool().unwrap(), x["dp"]["b"].as_bool().unwrap()),
        lk: x["lk"].as_u64().unwrap(),
        pk,
        bt: us(&x["bt"]),
    }
}

pub fn parse_case(v: &Value) -> Case {
    let lay = &v["lay"];
    let sig = lay["sig"].as_array().unwrap().iter().map(|s| s.as_str().unwrap().to_string()).collect();
    let home = lay["home"].as_array().unwrap().iter().map(us).collect();
    let steps = v["steps"]
        .as_array()
        .unwrap()
        .iter()
        .map(|s| {
            let c = &s["c"];
            let act = match c["a"].as_str().unwrap() {
                "poll" => Act::Poll(us(&c["l"])),
                "drop" => Act::Drop(us(&c["l"])),
                "raise" => Act::Raise(c["s"].as_str().unwrap().to_string(), us(&c["on"]), us(&c["pk"])),
                "release" => Act::Release(us(&c["on"])),
                o => panic!("unknown step {o}"),
            };
            Step { act, x: parse_obs(&s["x"]) }
        })
        .collect();
    Case { sig, home, auto: v["auto"].as_bool().unwrap_or(false), steps, raw: v.clone() }
}

pub fn obs_json(o: &Obs) -> Value {
    json!({"st": o.st, "wk": o.wk, "fl": o.fl, "dp": {"a": o.dp.0, "b": o.dp.1}, "lk": o.lk, "pk": o.pk, "bt": o.bt})
}

/// fields in which the real observation differs from the expectation
pub fn diff(real: &Obs, exp: &Obs) -> Vec<&'static str> {
    let mut d = vec![];
    if real.st != exp.st {
        d.push("st");
    }
    if real.wk != exp.wk {
        d.push("wk");
    }
    if real.fl != exp.fl {
        d.push("fl");
    }
    if real.dp != exp.dp {
        d.push("dp");
    }
    if real.lk != exp.lk {
        d.push("lk");
    }
    if real.pk != exp.pk {
        d.push("pk");
    }
    if real.bt != exp.bt {
        d.push("bt");
    }
    d
}

pub fn act_name(a: &Act) -> &'static str {
    match a {
        Act::Poll(_) => "poll",
        Act::Drop(_) => "drop",
        Act::Raise(_, _, 0) => "raise",
        Act::Raise(..) => "raise_park",
        Act::Release(_) => "release",
    }
}
