// throw-away probe: signal handler on the runtime's own thread re-enters the executor's local queue
use std::{future::Future, pin::Pin, sync::{Arc, atomic::{AtomicBool, AtomicU64, Ordering}}, task::{Context, Poll, Waker}, time::{Duration, Instant}};
struct Yield(bool);
impl Future for Yield { type Output = (); fn poll(mut self: Pin<&mut Self>, cx: &mut Context<'_>) -> Poll<()> { if self.0 { Poll::Ready(()) } else { self.0 = true; cx.waker().wake_by_ref(); Poll::Pending } } }
fn main() {
    let secs: u64 = std::env::args().nth(1).map(|s| s.parse().unwrap()).unwrap_or(5);
    let ntasks: usize = std::env::args().nth(2).map(|s| s.parse().unwrap()).unwrap_or(8);
    // guard listener keeps the handler installed
    let mut guard: Pin<Box<dyn Future<Output = std::io::Result<()>>>> = Box::pin(compio_signal::unix::signal(libc::SIGUSR1));
    let w = Waker::noop();
    let mut cx = Context::from_waker(&w);
    assert!(guard.as_mut().poll(&mut cx).is_pending());
    let mode = std::env::args().nth(3).unwrap_or("same".into());
    let (ttx, trx) = std::sync::mpsc::channel::<usize>();
    let st3 = Arc::new(AtomicBool::new(false)); let st4 = st3.clone();
    let other = std::thread::spawn(move || { ttx.send((unsafe { libc::pthread_self() }) as usize).unwrap(); while !st4.load(Ordering::Relaxed) { std::thread::sleep(Duration::from_millis(1)); } });
    let other_t = trx.recv().unwrap();
    let main_t = if mode == "same" { (unsafe { libc::pthread_self() }) as usize } else { other_t };
    let stop = Arc::new(AtomicBool::new(false));
    let sent = Arc::new(AtomicU64::new(0));
    let (s2, st2) = (sent.clone(), stop.clone());
    let bomber = std::thread::spawn(move || {
        while !st2.load(Ordering::Relaxed) {
            unsafe { libc::pthread_kill(main_t as libc::pthread_t, libc::SIGUSR1) };
            s2.fetch_add(1, Ordering::Relaxed);
            for _ in 0..200 { std::hint::spin_loop(); }
        }
    });
    let counters: Vec<Arc<AtomicU64>> = (0..ntasks).map(|_| Arc::new(AtomicU64::new(0))).collect();
    let got = Arc::new(AtomicU64::new(0));
    let rt = compio_runtime::Runtime::new().unwrap();
    let t0 = Instant::now();
    let res = rt.block_on(async {
        for c in counters.iter().cloned() {
            let stop = stop.clone();
            compio_runtime::spawn(async move { while !stop.load(Ordering::Relaxed) { c.fetch_add(1, Ordering::Relaxed); Yield(false).await; } }).detach();
        }
        for _ in 0..4 {
            let got = got.clone(); let stop = stop.clone();
            compio_runtime::spawn(async move { while !stop.load(Ordering::Relaxed) { compio_signal::unix::signal(libc::SIGUSR1).await.unwrap(); got.fetch_add(1, Ordering::Relaxed); } }).detach();
        }
        let mut last: Vec<u64> = vec![0; ntasks];
        let mut stalled_rounds = vec![0u32; ntasks];
        let mut tick = 0u64;
        loop {
            for _ in 0..2000 { Yield(false).await; }
            tick += 1;
            for (i, c) in counters.iter().enumerate() {
                let v = c.load(Ordering::Relaxed);
                if v == last[i] { stalled_rounds[i] += 1; } else { stalled_rounds[i] = 0; }
                last[i] = v;
            }
            if let Some(i) = stalled_rounds.iter().position(|&r| r >= 5) { return format!("task {i} stalled (lost from the hot list) at tick {tick}"); }
            if t0.elapsed() > Duration::from_secs(secs) { return "no stall".to_string(); }
        }
    });
    stop.store(true, Ordering::Relaxed); st3.store(true, Ordering::Relaxed); let _ = &other;
    println!("{res}; signals sent {} listener completions {} elapsed {:?}", sent.load(Ordering::Relaxed), got.load(Ordering::Relaxed), t0.elapsed());
    std::mem::forget(guard);
    let _ = bomber.join();
    std::process::exit(0);
}
