//! X01: replay Gen_Signal behaviours with AutoPoll = TRUE on real compio runtimes.
//!
//! Threads 1 and 2 each run a `compio_runtime::Runtime` (`block_on` of a controller future that executes the
//! orchestrator's commands); thread 0 is a plain thread.  A listener is a task spawned on its home runtime that
//! awaits `compio_signal::unix::signal(sig)`; `raise` is called on the thread the behaviour names - from inside
//! the controller future when that is a runtime thread, so the handler runs on top of the runtime thread and
//! wakes listeners of that runtime through the executor's local path and listeners of the other runtime through
//! the remote path (sync queue + driver notification).
//!
//! After every step the runtimes are settled (two rounds of: controller wakes itself, returns Pending, the
//! runtime runs its tasks, polls the driver, polls the controller again) and the observation is compared with
//! the model: state of every listener (not spawned / pending / done), number of polls of the task after the
//! first (= wakes), dispositions.  Contract predicates on the real observation:
//!   C1 a listener completes only after its own signal was raised since it registered
//!   C2 after raise(s) every listener of s that was registered before completes (waited for with the watchdog)
//!   C4 while a listener is registered its signal does not have the default disposition
//!   C6 nothing hangs, nothing panics
use std::{
    future::Future,
    io,
    pin::Pin,
    sync::{
        Arc,
        atomic::{AtomicBool, AtomicU64, Ordering},
        mpsc::{Receiver, Sender, TryRecvError, channel},
    },
    task::{Context, Poll, Waker},
};

use compio_runtime::JoinHandle;
use hcore::out::{Report, silence_panics};
use hx01::{
    CountingAlloc, handler_installed,
    proto::{Act, Case, Obs, act_name, diff, obs_json, parse_case},
    signo, wait_until, watchdog,
};
use serde_json::{Value, json};

#[global_allocator]
static A: CountingAlloc = CountingAlloc;

#[derive(Default)]
struct LObs {
    polls: AtomicU64,
    /// 0 = not ready, 1 = Ready(Ok), 2 = Ready(Err)
    ready: AtomicU64,
    dropped: AtomicBool,
}

struct DropFlag(Arc<LObs>);
impl Drop for DropFlag {
    fn drop(&mut self) {
        self.0.dropped.store(true, Ordering::SeqCst);
    }
}

/// the listener task: fields are dropped in declaration order, so `dropped` is set after the signal future
/// (and with it the SignalListener) is gone
struct ListenerTask {
    inner: Option<Pin<Box<dyn Future<Output = io::Result<()>>>>>,
    obs: Arc<LObs>,
    _flag: DropFlag,
}

impl Future for ListenerTask {
    type Output = ();

    fn poll(mut self: Pin<&mut Self>, cx: &mut Context<'_>) -> Poll<()> {
        self.obs.polls.fetch_add(1, Ordering::SeqCst);
        let r = self.inner.as_mut().expect("polled after completion").as_mut().poll(cx);
        match r {
            Poll::Pending => Poll::Pending,
            Poll::Ready(r) => {
                self.inner = None;
                self.obs.ready.store(if r.is_ok() { 1 } else { 2 }, Ordering::SeqCst);
                Poll::Ready(())
            }
        }
    }
}

enum Cmd {
    Spawn(usize, i32, Arc<LObs>),
    Cancel(usize),
    Raise(i32),
    Sync,
}

struct Controller {
    rx: Receiver<Cmd>,
    tx: Sender<&'static str>,
    handles: Vec<Option<JoinHandle<()>>>,
    sync_left: u32,
}

impl Future for Controller {
    type Output = ();

    fn poll(mut self: Pin<&mut Self>, cx: &mut Context<'_>) -> Poll<()> {
        if self.sync_left > 0 {
            self.sync_left -= 1;
            if self.sync_left == 0 {
                let _ = self.tx.send("synced");
            } else {
                cx.waker().wake_by_ref();
                return Poll::Pending;
            }
        }
        loop {
            match self.rx.try_recv() {
                Ok(Cmd::Spawn(l, sig, obs)) => {
                    let t = ListenerTask {
                        inner: Some(Box::pin(compio_signal::unix::signal(sig))),
                        obs: obs.clone(),
                        _flag: DropFlag(obs),
                    };
                    while self.handles.len() <= l {
                        self.handles.push(None);
                    }
                    self.handles[l] = Some(compio_runtime::spawn(t));
                    let _ = self.tx.send("spawned");
                }
                Ok(Cmd::Cancel(l)) => {
                    // dropping the JoinHandle cancels the task; its future is dropped when the task runs next
                    if let Some(h) = self.handles.get_mut(l).and_then(|h| h.take()) {
                        drop(h);
                    }
                    let _ = self.tx.send("cancelled");
                }
                Ok(Cmd::Raise(sig)) => {
                    unsafe { libc::raise(sig) };
                    let _ = self.tx.send("raised");
                }
                Ok(Cmd::Sync) => {
                    self.sync_left = 3;
                    cx.waker().wake_by_ref();
                    return Poll::Pending;
                }
                Err(TryRecvError::Disconnected) => return Poll::Ready(()),
                Err(TryRecvError::Empty) => return Poll::Pending,
            }
        }
    }
}

fn runtime_thread(rx: Receiver<Cmd>, tx: Sender<&'static str>, wtx: Sender<Waker>) {
    let rt = compio_runtime::Runtime::new().expect("runtime");
    wtx.send(rt.waker()).unwrap();
    rt.block_on(Controller { rx, tx, handles: Vec::new(), sync_left: 0 });
}

fn plain_thread(rx: Receiver<Cmd>, tx: Sender<&'static str>) {
    while let Ok(c) = rx.recv() {
        match c {
            Cmd::Raise(sig) => {
                unsafe { libc::raise(sig) };
                let _ = tx.send("raised");
            }
            _ => {
                let _ = tx.send("ignored");
            }
        }
    }
}

struct Orc {
    cmd: Vec<Sender<Cmd>>,
    rep: Vec<Receiver<&'static str>>,
    wakers: Vec<Option<Waker>>,
    report: Report,
    raw: Value,
    stepno: usize,
    late: u64,
    expired: u32,
}

impl Orc {
    fn problem(&mut self, ty: &str, sig: Value, desc: String) {
        let raw = self.raw.clone();
        self.report.problem(ty, sig, desc, &raw, self.stepno);
    }

    fn send(&mut self, t: usize, c: Cmd) {
        self.cmd[t].send(c).expect("thread gone");
        if let Some(w) = &self.wakers[t] {
            w.wake_by_ref();
        }
    }

    fn reply(&mut self, t: usize, what: &str) -> Result<(), String> {
        let mut got = None;
        let rx = &self.rep[t];
        wait_until(watchdog(), || {
            if let Ok(r) = rx.try_recv() {
                got = Some(r);
                true
            } else {
                false
            }
        });
        match got {
            Some(r) if r == what => Ok(()),
            other => Err(format!("thread {t}: expected reply {what}, got {other:?}")),
        }
    }

    fn settle(&mut self) -> Result<(), String> {
        for t in 1..=2 {
            self.send(t, Cmd::Sync);
            self.reply(t, "synced")?;
        }
        Ok(())
    }
}

struct CaseState {
    n: usize,
    sig: Vec<i32>,
    signame: Vec<String>,
    home: Vec<usize>,
    obs: Vec<Arc<LObs>>,
    spawned: Vec<bool>,
    cancelled: Vec<bool>,
    may: Vec<bool>,
}

impl CaseState {
    fn st(&self, l: usize) -> &'static str {
        if self.cancelled[l] || self.obs[l].ready.load(Ordering::SeqCst) != 0 {
            "done"
        } else if self.spawned[l] {
            "pend"
        } else {
            "new"
        }
    }
}

impl Orc {
    fn step(&mut self, cs: &mut CaseState, act: &Act) -> Result<(), String> {
        match act {
            Act::Poll(l) => {
                let l = *l;
                match cs.st(l) {
                    "new" => {
                        let t = cs.home[l];
                        self.send(t, Cmd::Spawn(l, cs.sig[l], cs.obs[l].clone()));
                        self.reply(t, "spawned")?;
                        cs.spawned[l] = true;
                        let o = cs.obs[l].clone();
                        if !wait_until(watchdog(), || o.polls.load(Ordering::SeqCst) >= 1) {
                            return Err(format!("listener task {l} was never polled"));
                        }
                    }
                    // a pending task is polled by its runtime when it is woken, never by the script
                    "pend" => {}
                    o => return Err(format!("inapplicable: poll of listener in state {o}")),
                }
                self.settle()
            }
            Act::Drop(l) => {
                let l = *l;
                match cs.st(l) {
                    "new" => cs.cancelled[l] = true,
                    "pend" => {
                        let t = cs.home[l];
                        self.send(t, Cmd::Cancel(l));
                        self.reply(t, "cancelled")?;
                        cs.cancelled[l] = true;
                        let o = cs.obs[l].clone();
                        if !wait_until(watchdog(), || o.dropped.load(Ordering::SeqCst)) {
                            return Err(format!("cancelled listener task {l} was never dropped"));
                        }
                    }
                    o => return Err(format!("inapplicable: drop of listener in state {o}")),
                }
                self.settle()
            }
            Act::Raise(s, on, _) => {
                let sig = signo(s);
                let pre: Vec<usize> = (1..=cs.n).filter(|&l| cs.sig[l] == sig && cs.st(l) == "pend").collect();
                if !handler_installed(sig) {
                    if pre.is_empty() {
                        self.problem(
                            "mismatch",
                            json!({"site": "replay_signal_rt", "act": "raise", "fields": ["not_raised_no_handler"]}),
                            format!("the model raises {s} here but no handler is installed (raise would kill the process)"),
                        );
                    }
                    return Err("no handler".into());
                }
                for l in 1..=cs.n {
                    if cs.sig[l] == sig && cs.spawned[l] {
                        cs.may[l] = true;
                    }
                }
                self.send(*on, Cmd::Raise(sig));
                self.reply(*on, "raised")?;
                self.settle()?;
                for l in pre {
                    let o = cs.obs[l].clone();
                    if o.ready.load(Ordering::SeqCst) == 0 {
                        // not there after settling: slow, or never?
                        if wait_until(watchdog(), || o.ready.load(Ordering::SeqCst) != 0) {
                            self.late += 1;
                        } else {
                            self.expired += 1;
                            self.problem(
                                "contract",
                                json!({"site": "handler", "kind": "registered_listener_never_completes", "sig": s, "on_home": *on == cs.home[l]}),
                                format!(
                                    "raise({s}) on thread {on} returned, listener task {l} (runtime {}) was registered before, \
                                     but it did not complete within the watchdog",
                                    cs.home[l]
                                ),
                            );
                        }
                    }
                }
                Ok(())
            }
            Act::Release(_) => Err("inapplicable: release in runtime mode".into()),
        }
    }

    fn observe(&self, cs: &CaseState) -> Obs {
        Obs {
            st: (1..=cs.n).map(|l| cs.st(l).to_string()).collect(),
            wk: (1..=cs.n).map(|l| cs.obs[l].polls.load(Ordering::SeqCst).saturating_sub(1)).collect(),
            fl: (1..=cs.n).map(|l| cs.obs[l].ready.load(Ordering::SeqCst) == 2).collect(),
            dp: (handler_installed(libc::SIGUSR1), handler_installed(libc::SIGUSR2)),
            lk: 0,
            pk: vec![],
            bt: 0,
        }
    }

    fn contracts(&mut self, cs: &CaseState) {
        for l in 1..=cs.n {
            let s = cs.signame[l].clone();
            if cs.obs[l].ready.load(Ordering::SeqCst) == 1 && !cs.may[l] {
                self.problem(
                    "contract",
                    json!({"site": "listener", "kind": "completed_without_its_signal", "sig": s}),
                    format!("listener task {l} of signal {s} completed although that signal was not raised since it registered"),
                );
            }
            let others = (1..=cs.n).any(|m| cs.sig[m] == cs.sig[l] && cs.st(m) == "pend");
            if !others && handler_installed(cs.sig[l]) {
                self.problem(
                    "contract",
                    json!({"site": "unregister", "kind": "handler_left_installed_without_listener", "sig": s}),
                    format!("no listener task is registered for {s} any more but its handler is still installed"),
                );
            }
            if cs.st(l) == "pend" && !handler_installed(cs.sig[l]) {
                self.problem(
                    "contract",
                    json!({"site": "unregister", "kind": "default_disposition_while_registered", "sig": s}),
                    format!("listener task {l} is registered for {s} but the disposition of {s} is SIG_DFL"),
                );
            }
        }
    }

    fn run_case(&mut self, case: &Case) -> Result<(), String> {
        let n = case.sig.len();
        let mut cs = CaseState {
            n,
            sig: std::iter::once(0).chain(case.sig.iter().map(|s| signo(s))).collect(),
            signame: std::iter::once(String::new()).chain(case.sig.iter().cloned()).collect(),
            home: std::iter::once(0).chain(case.home.iter().copied()).collect(),
            obs: (0..=n).map(|_| Arc::new(LObs::default())).collect(),
            spawned: vec![false; n + 1],
            cancelled: vec![false; n + 1],
            may: vec![false; n + 1],
        };
        let mut fatal = None;
        for (i, s) in case.steps.iter().enumerate() {
            self.stepno = i;
            self.report.steps += 1;
            let r = self.step(&mut cs, &s.act);
            self.contracts(&cs);
            let real = self.observe(&cs);
            let mut exp = s.x.clone();
            exp.lk = 0;
            let d = diff(&real, &exp);
            if !d.is_empty() {
                self.problem(
                    "mismatch",
                    json!({"site": "replay_signal_rt", "act": act_name(&s.act), "fields": d}),
                    format!("step {i} {:?}: real {} expected {}", s.act, obs_json(&real), obs_json(&exp)),
                );
                break;
            }
            if let Err(why) = r {
                if why == "no handler" {
                } else if why.starts_with("inapplicable") {
                    self.problem(
                        "mismatch",
                        json!({"site": "replay_signal_rt", "act": act_name(&s.act), "fields": ["inapplicable"]}),
                        format!("step {i} {:?}: {why}", s.act),
                    );
                } else {
                    self.problem("hang", json!({"site": "runtime", "kind": "step_does_not_finish", "act": act_name(&s.act)}), why.clone());
                    fatal = Some(why);
                }
                break;
            }
        }
        if fatal.is_some() {
            return Err(fatal.unwrap());
        }
        // cleanup: cancel what is left
        self.stepno = case.steps.len();
        for l in 1..=n {
            if cs.st(l) == "pend" {
                let t = cs.home[l];
                self.send(t, Cmd::Cancel(l));
                self.reply(t, "cancelled")?;
                cs.cancelled[l] = true;
                let o = cs.obs[l].clone();
                if !wait_until(watchdog(), || o.dropped.load(Ordering::SeqCst)) {
                    return Err(format!("cleanup: cancelled listener task {l} was never dropped"));
                }
            }
        }
        self.settle()?;
        for (name, sig) in [("a", libc::SIGUSR1), ("b", libc::SIGUSR2)] {
            if handler_installed(sig) {
                self.problem(
                    "contract",
                    json!({"site": "unregister", "kind": "handler_left_installed_without_listener", "sig": name}),
                    format!("every listener was dropped but the handler for {name} is still installed: the signal is swallowed from now on"),
                );
                unsafe { libc::signal(sig, libc::SIG_DFL) };
            }
        }
        Ok(())
    }
}

fn main() {
    silence_panics();
    let args: Vec<String> = std::env::args().collect();
    let path = args.get(1).expect("usage: replay_signal_rt <cases.jsonl> [--from N]");
    let mut from = 0usize;
    let mut i = 2;
    while i < args.len() {
        if args[i] == "--from" {
            from = args[i + 1].parse().unwrap();
            i += 1;
        }
        i += 1;
    }
    let mut cmd = vec![];
    let mut rep = vec![];
    let mut wakers = vec![];
    for t in 0..3 {
        let (ctx, crx) = channel();
        let (rtx, rrx) = channel();
        if t == 0 {
            std::thread::spawn(move || plain_thread(crx, rtx));
            wakers.push(None);
        } else {
            let (wtx, wrx) = channel();
            std::thread::spawn(move || runtime_thread(crx, rtx, wtx));
            wakers.push(Some(wrx.recv().expect("runtime did not start")));
        }
        cmd.push(ctx);
        rep.push(rrx);
    }
    let mut orc = Orc { cmd, rep, wakers, report: Report::new(), raw: Value::Null, stepno: 0, late: 0, expired: 0 };
    let text = std::fs::read_to_string(path).expect("read cases");
    let mut fatal = None;
    let mut done = 0usize;
    for (idx, line) in text.lines().enumerate() {
        let line = line.trim();
        if line.is_empty() || idx < from {
            continue;
        }
        let v: Value = serde_json::from_str(line).expect("bad json");
        let case = parse_case(&v);
        orc.raw = v;
        orc.report.cases += 1;
        if let Err(e) = orc.run_case(&case) {
            if !e.is_empty() {
                orc.problem("hang", json!({"site": "replay_signal_rt", "kind": "process_wedged"}), e.clone());
            }
            fatal = Some(e);
            done = idx + 1;
            break;
        }
        done = idx + 1;
        if orc.expired >= 3 {
            fatal = Some("three watchdog expiries: not waiting for more".into());
            break;
        }
        if done % 500 == 0 {
            eprintln!("PROGRESS {done}");
        }
    }
    let mut r = orc.report;
    r.set("late_completions", json!(orc.late));
    r.set("next", json!(done));
    r.set("fatal", json!(fatal));
    r.finish();
    std::process::exit(if fatal.is_some() { 3 } else { 0 });
}
