//! X01: free-running stress of signal delivery into a busy compio runtime (contract oracle only).
//!
//! One runtime on the main thread runs `ntasks` tasks that yield in a loop (constant make_hot / make_cold
//! traffic on the executor's run queue) and four listener tasks that await `signal(SIGUSR1)` again and again.
//! A bomber thread sends SIGUSR1 with pthread_kill to
//!   mode "other": a thread that owns no runtime - the handler wakes the listeners through the remote path;
//!   mode "same" : the runtime's own thread   - the handler wakes them through Local::schedule, which
//!                 re-enters the run queue the interrupted thread may be in the middle of updating.
//! A guard listener (registered by hand, never completed) keeps the handler installed for the whole run, so
//! that no signal can ever meet the default disposition.
//!
//! Contract: every task keeps being polled (measured in the runtime's own logical time: rounds of the main
//! task, never wall-clock), listeners keep completing, nothing panics, crashes or hangs.
//! Output: one JSON line {"type":"result","mode":..,"symptom":"none"|"task_lost"|"panic"|"hang",..}; a crash
//! of the process is seen by the caller as the exit status.
//!
//! usage: stress_signal <same|other> <seconds> [ntasks]
use std::{
    future::Future,
    panic::{AssertUnwindSafe, catch_unwind},
    pin::Pin,
    sync::{
        Arc,
        atomic::{AtomicBool, AtomicU64, Ordering},
    },
    task::{Context, Poll, Waker},
    time::{Duration, Instant},
};

use hcore::out::panic_msg;
use serde_json::json;

struct Yield(bool);
impl Future for Yield {
    type Output = ();

    fn poll(mut self: Pin<&mut Self>, cx: &mut Context<'_>) -> Poll<()> {
        if self.0 {
            Poll::Ready(())
        } else {
            self.0 = true;
            cx.waker().wake_by_ref();
            Poll::Pending
        }
    }
}

fn emit(mode: &str, symptom: &str, detail: String, sent: u64, got: u64, rounds: u64) {
    println!(
        "{}",
        json!({"type": "result", "mode": mode, "symptom": symptom, "detail": detail, "signals_sent": sent,
               "listener_completions": got, "rounds": rounds})
    );
}

fn main() {
    std::panic::set_hook(Box::new(|_| {}));
    let mode = std::env::args().nth(1).unwrap_or("other".into());
    let secs: u64 = std::env::args().nth(2).map(|s| s.parse().unwrap()).unwrap_or(3);
    let ntasks: usize = std::env::args().nth(3).map(|s| s.parse().unwrap()).unwrap_or(8);

    let mut guard: Pin<Box<dyn Future<Output = std::io::Result<()>>>> =
        Box::pin(compio_signal::unix::signal(libc::SIGUSR1));
    let mut cx = Context::from_waker(Waker::noop());
    assert!(guard.as_mut().poll(&mut cx).is_pending());

    let stop = Arc::new(AtomicBool::new(false));
    let sent = Arc::new(AtomicU64::new(0));
    let got = Arc::new(AtomicU64::new(0));
    let heartbeat = Arc::new(AtomicU64::new(0));

    // the thread that takes the signals in mode "other"
    let (ttx, trx) = std::sync::mpsc::channel::<usize>();
    let st = stop.clone();
    std::thread::spawn(move || {
        ttx.send((unsafe { libc::pthread_self() }) as usize).unwrap();
        while !st.load(Ordering::Relaxed) {
            std::thread::sleep(Duration::from_millis(1));
        }
    });
    let other_t = trx.recv().unwrap();
    let target = if mode == "same" { (unsafe { libc::pthread_self() }) as usize } else { other_t };

    let (s2, st2) = (sent.clone(), stop.clone());
    let bomber = std::thread::spawn(move || {
        while !st2.load(Ordering::Relaxed) {
            unsafe { libc::pthread_kill(target as libc::pthread_t, libc::SIGUSR1) };
            s2.fetch_add(1, Ordering::Relaxed);
            for _ in 0..200 {
                std::hint::spin_loop();
            }
        }
    });

    // a runtime thread caught in a corrupted (cyclic) queue never comes back: report and leave
    let (hb, st3, m3, s3, g3) = (heartbeat.clone(), stop.clone(), mode.clone(), sent.clone(), got.clone());
    std::thread::spawn(move || {
        let mut last = 0;
        let mut since = Instant::now();
        while !st3.load(Ordering::Relaxed) {
            std::thread::sleep(Duration::from_millis(100));
            let v = hb.load(Ordering::Relaxed);
            if v != last {
                last = v;
                since = Instant::now();
            } else if since.elapsed() > Duration::from_secs(secs * 10 + 30) {
                st3.store(true, Ordering::Relaxed);
                emit(&m3, "hang", "the runtime thread stopped making progress".into(), s3.load(Ordering::Relaxed),
                     g3.load(Ordering::Relaxed), v);
                unsafe { libc::_exit(0) };
            }
        }
    });

    let counters: Vec<Arc<AtomicU64>> = (0..ntasks).map(|_| Arc::new(AtomicU64::new(0))).collect();
    let rt = compio_runtime::Runtime::new().unwrap();
    let t0 = Instant::now();
    let res = catch_unwind(AssertUnwindSafe(|| {
        rt.block_on(async {
            for c in counters.iter().cloned() {
                let stop = stop.clone();
                compio_runtime::spawn(async move {
                    while !stop.load(Ordering::Relaxed) {
                        c.fetch_add(1, Ordering::Relaxed);
                        Yield(false).await;
                    }
                })
                .detach();
            }
            for _ in 0..4 {
                let (got, stop) = (got.clone(), stop.clone());
                compio_runtime::spawn(async move {
                    while !stop.load(Ordering::Relaxed) {
                        if compio_signal::unix::signal(libc::SIGUSR1).await.is_ok() {
                            got.fetch_add(1, Ordering::Relaxed);
                        }
                    }
                })
                .detach();
            }
            let mut last = vec![0u64; ntasks];
            let mut stalled = vec![0u32; ntasks];
            let mut rounds = 0u64;
            loop {
                for _ in 0..2000 {
                    Yield(false).await;
                }
                rounds += 1;
                heartbeat.fetch_add(1, Ordering::Relaxed);
                for (i, c) in counters.iter().enumerate() {
                    let v = c.load(Ordering::Relaxed);
                    if v == last[i] {
                        stalled[i] += 1;
                    } else {
                        stalled[i] = 0;
                    }
                    last[i] = v;
                }
                if let Some(i) = stalled.iter().position(|&r| r >= 5) {
                    return ("task_lost", format!("task {i} was not polled during 10000 polls of the main task: it fell out of the run queue"), rounds);
                }
                // long enough to have exercised something also on a machine that is busy with other work
                let el = t0.elapsed();
                if el > Duration::from_secs(secs) && (got.load(Ordering::Relaxed) >= 500 || el > Duration::from_secs(secs * 10)) {
                    return ("none", String::new(), rounds);
                }
            }
        })
    }));
    stop.store(true, Ordering::Relaxed);
    let _ = bomber.join();
    let (s, g) = (sent.load(Ordering::Relaxed), got.load(Ordering::Relaxed));
    match res {
        Ok((sym, detail, rounds)) => emit(&mode, sym, detail, s, g, rounds),
        Err(p) => emit(&mode, "panic", panic_msg(p), s, g, heartbeat.load(Ordering::Relaxed)),
    }
    std::mem::forget(guard);
    // the runtime may be corrupted: leave without running destructors
    unsafe { libc::_exit(0) };
}
