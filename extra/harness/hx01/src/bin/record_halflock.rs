//! X01: record histories of the REAL half-lock (compio-signal/src/unix/half_lock.rs, compiled into this binary
//! unchanged through build.rs) for validation against spec/Trace_HalfLock.tla.
//!
//! Three reader threads (`read()`, hold the guard, drop it) and two writer threads (`write()` + `store(v)`) run
//! seeded random programs.  Commands are issued without waiting for their completion, so calls overlap for
//! real: a writer spins in write_barrier while guards are held, readers arrive during the barrier.  Every call
//! and return, and the drop of every stored value (its Drop impl), is logged with a global order (the log lock).
//!
//! Contract evaluated on the real observation, independent of the model: a value is never dropped while a
//! guard that was returned for it is alive (canary checked when the guard is returned and again just before it
//! is released, and the order of the logged drop / release events), and nothing hangs.
//!
//! usage: record_halflock <out.ndjson> <runs> <seed> [ops per run]
use std::{
    io::Write,
    sync::{
        Mutex,
        atomic::{AtomicU32, Ordering},
        mpsc::{Receiver, Sender, channel},
    },
    time::Duration,
};

use hcore::out::Report;
use hx01::{wait_until, watchdog};
use rand::{RngExt, SeedableRng, rngs::StdRng};
use serde_json::{Value, json};

mod hl {
    include!(concat!(env!("OUT_DIR"), "/half_lock_wrap.rs"));
}
use hl::half_lock::{HalfLock, ReadGuard};

const ALIVE: u32 = 0xA11CE;
const DEAD: u32 = 0xDEAD;

static LOG: Mutex<Vec<Value>> = Mutex::new(Vec::new());

fn log(v: Value) {
    LOG.lock().unwrap().push(v);
}

struct Val {
    id: u32,
    canary: AtomicU32,
}

impl Val {
    fn new(id: u32) -> Self {
        Self { id, canary: AtomicU32::new(ALIVE) }
    }
}

impl Drop for Val {
    fn drop(&mut self) {
        // logged BEFORE the canary dies, so that a reader that sees a dead canary finds the drop in the log
        log(json!({"e": "drop", "v": self.id}));
        self.canary.store(DEAD, Ordering::SeqCst);
    }
}

enum Cmd {
    Read(&'static HalfLock<Val>),
    Release,
    Store(&'static HalfLock<Val>, u32),
}

/// reply: (what, value seen, canary ok)
type Reply = (&'static str, u32, bool);

fn reader(i: usize, rx: Receiver<Cmd>, tx: Sender<Reply>) {
    let mut guard: Option<ReadGuard<'static, Val>> = None;
    while let Ok(c) = rx.recv() {
        match c {
            Cmd::Read(h) => {
                log(json!({"e": "read.call", "r": i}));
                let g = h.read();
                let (id, ok) = (g.id, g.canary.load(Ordering::SeqCst) == ALIVE);
                log(json!({"e": "read.ret", "r": i, "v": id}));
                guard = Some(g);
                let _ = tx.send(("read", id, ok));
            }
            Cmd::Release => {
                let g = guard.take().expect("no guard");
                let (id, ok) = (g.id, g.canary.load(Ordering::SeqCst) == ALIVE);
                log(json!({"e": "release.call", "r": i}));
                drop(g);
                log(json!({"e": "release.ret", "r": i}));
                let _ = tx.send(("release", id, ok));
            }
            Cmd::Store(..) => unreachable!(),
        }
    }
}

fn writer(i: usize, rx: Receiver<Cmd>, tx: Sender<Reply>) {
    while let Ok(c) = rx.recv() {
        match c {
            Cmd::Store(h, v) => {
                log(json!({"e": "store.call", "w": i, "v": v}));
                {
                    let mut g = h.write();
                    g.store(Val::new(v));
                }
                log(json!({"e": "store.ret", "w": i}));
                let _ = tx.send(("store", v, true));
            }
            _ => unreachable!(),
        }
    }
}

#[derive(Clone, Copy, PartialEq)]
enum RS {
    Idle,
    Reading,
    Holding,
    Releasing,
}

fn main() {
    let args: Vec<String> = std::env::args().collect();
    let out = args.get(1).expect("usage: record_halflock <out.ndjson> <runs> <seed> [ops]");
    let runs: usize = args.get(2).map(|s| s.parse().unwrap()).unwrap_or(50);
    let seed: u64 = args.get(3).map(|s| s.parse().unwrap()).unwrap_or(1);
    let ops: usize = args.get(4).map(|s| s.parse().unwrap()).unwrap_or(14);
    let mut rng = StdRng::seed_from_u64(seed);
    const NR: usize = 3;
    const NW: usize = 2;
    let mut rtx = vec![];
    let mut rrx = vec![];
    for i in 1..=NR {
        let (ctx, crx) = channel();
        let (ptx, prx) = channel();
        std::thread::spawn(move || reader(i, crx, ptx));
        rtx.push(ctx);
        rrx.push(prx);
    }
    let mut wtx = vec![];
    let mut wrx = vec![];
    for i in 1..=NW {
        let (ctx, crx) = channel();
        let (ptx, prx) = channel();
        std::thread::spawn(move || writer(i, crx, ptx));
        wtx.push(ctx);
        wrx.push(prx);
    }
    let mut rep = Report::new();
    let mut f = std::io::BufWriter::new(std::fs::File::create(out).expect("create"));
    let mut events = 0u64;
    let mut overlapped_stores = 0u64;
    let mut fatal: Option<String> = None;
    let case = json!({"seed": seed});
    'runs: for run in 0..runs {
        let h: &'static HalfLock<Val> = Box::leak(Box::new(HalfLock::new(Val::new(0))));
        log(json!({"e": "reset"}));
        let mut rs = [RS::Idle; NR];
        let mut wbusy = [false; NW];
        let mut next_v = 1u32;
        rep.cases += 1;
        // collect finished calls without blocking
        macro_rules! collect {
            () => {
                for i in 0..NR {
                    while let Ok((what, v, ok)) = rrx[i].try_recv() {
                        rs[i] = if what == "read" { RS::Holding } else { RS::Idle };
                        if !ok {
                            rep.problem(
                                "contract",
                                json!({"site": "half_lock", "kind": "value_dropped_while_guard_held", "at": what}),
                                format!("run {run}: reader {} holds a guard for value {v} whose Drop has already run", i + 1),
                                &case,
                                run,
                            );
                        }
                    }
                }
                for i in 0..NW {
                    while let Ok(_) = wrx[i].try_recv() {
                        wbusy[i] = false;
                    }
                }
            };
        }
        for _ in 0..ops {
            rep.steps += 1;
            collect!();
            // a short random pause lets in-flight calls progress to different points
            match rng.random_range(0..4) {
                0 => std::thread::yield_now(),
                1 => std::thread::sleep(Duration::from_micros(rng.random_range(1..200))),
                _ => {}
            }
            collect!();
            let k = rng.random_range(0..10);
            if k < 6 {
                let i = rng.random_range(0..NR);
                match rs[i] {
                    RS::Idle => {
                        rs[i] = RS::Reading;
                        rtx[i].send(Cmd::Read(h)).unwrap();
                    }
                    RS::Holding => {
                        rs[i] = RS::Releasing;
                        rtx[i].send(Cmd::Release).unwrap();
                    }
                    _ => {}
                }
            } else {
                let i = rng.random_range(0..NW);
                if !wbusy[i] {
                    wbusy[i] = true;
                    if rs.iter().any(|s| *s != RS::Idle) {
                        overlapped_stores += 1;
                    }
                    wtx[i].send(Cmd::Store(h, next_v)).unwrap();
                    next_v += 1;
                }
            }
        }
        // wind down: every read returns (readers never wait), every guard is released, every store returns
        let ok = wait_until(watchdog(), || {
            collect!();
            for i in 0..NR {
                if rs[i] == RS::Holding {
                    rs[i] = RS::Releasing;
                    rtx[i].send(Cmd::Release).unwrap();
                }
            }
            rs.iter().all(|s| *s == RS::Idle) && wbusy.iter().all(|b| !*b)
        });
        if !ok {
            let stuck_r: Vec<usize> = (0..NR).filter(|&i| rs[i] != RS::Idle).map(|i| i + 1).collect();
            let stuck_w: Vec<usize> = (0..NW).filter(|&i| wbusy[i]).map(|i| i + 1).collect();
            rep.problem(
                "hang",
                json!({"site": "half_lock", "kind": "call_does_not_return", "readers": !stuck_r.is_empty()}),
                format!("run {run}: readers {stuck_r:?} / writers {stuck_w:?} did not return within the watchdog"),
                &case,
                run,
            );
            fatal = Some("threads stuck inside the half-lock".into());
        }
        let evs = std::mem::take(&mut *LOG.lock().unwrap());
        // order contract on the log: no drop(v) between read.ret(r, v) and release.call(r)
        let mut holding: [Option<u64>; NR + 1] = [None; NR + 1];
        for e in &evs {
            match e["e"].as_str().unwrap() {
                "read.ret" => holding[e["r"].as_u64().unwrap() as usize] = e["v"].as_u64(),
                "release.call" => holding[e["r"].as_u64().unwrap() as usize] = None,
                "drop" => {
                    if holding.iter().any(|h| *h == e["v"].as_u64()) {
                        rep.problem(
                            "contract",
                            json!({"site": "half_lock", "kind": "value_dropped_while_guard_held", "at": "log"}),
                            format!("run {run}: value {} dropped while a guard returned for it was not yet released", e["v"]),
                            &case,
                            run,
                        );
                    }
                }
                _ => {}
            }
        }
        for e in &evs {
            events += 1;
            writeln!(f, "{e}").unwrap();
        }
        if fatal.is_some() {
            break 'runs;
        }
    }
    f.flush().unwrap();
    rep.set("events", json!(events));
    rep.set("overlapped_stores", json!(overlapped_stores));
    rep.set("fatal", json!(fatal));
    rep.finish();
    let _ = (&rtx, &wtx);
    std::process::exit(if fatal.is_some() { 3 } else { 0 });
}
