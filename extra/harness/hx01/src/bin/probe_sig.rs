// throw-away probe: leak on failing register
use std::{alloc::{GlobalAlloc, Layout, System}, future::Future, pin::Pin, sync::{Arc, atomic::{AtomicIsize, AtomicUsize, Ordering}}, task::{Context, Poll, Wake, Waker}};
struct CA;
static LIVE: AtomicIsize = AtomicIsize::new(0);
static LIVEB: AtomicIsize = AtomicIsize::new(0);
unsafe impl GlobalAlloc for CA {
    unsafe fn alloc(&self, l: Layout) -> *mut u8 { LIVE.fetch_add(1, Ordering::Relaxed); LIVEB.fetch_add(l.size() as isize, Ordering::Relaxed); unsafe { System.alloc(l) } }
    unsafe fn dealloc(&self, p: *mut u8, l: Layout) { LIVE.fetch_sub(1, Ordering::Relaxed); LIVEB.fetch_sub(l.size() as isize, Ordering::Relaxed); unsafe { System.dealloc(p, l) } }
}
#[global_allocator] static A: CA = CA;
struct W(AtomicUsize);
impl Wake for W { fn wake(self: Arc<Self>) { self.0.fetch_add(1, Ordering::SeqCst); } }
fn main() {
    let w = Arc::new(W(AtomicUsize::new(0)));
    let waker = Waker::from(w.clone());
    let mut cx = Context::from_waker(&waker);
    for round in 0..3 {
        let (a0, b0) = (LIVE.load(Ordering::SeqCst), LIVEB.load(Ordering::SeqCst));
        for _ in 0..100 {
            let mut f: Pin<Box<dyn Future<Output = std::io::Result<()>>>> = Box::pin(compio_signal::unix::signal(libc::SIGUSR1));
            assert!(f.as_mut().poll(&mut cx).is_pending());
            drop(f);
        }
        let (a1, b1) = (LIVE.load(Ordering::SeqCst), LIVEB.load(Ordering::SeqCst));
        for _ in 0..100 {
            let mut g: Pin<Box<dyn Future<Output = std::io::Result<()>>>> = Box::pin(compio_signal::unix::signal(libc::SIGKILL));
            match g.as_mut().poll(&mut cx) { Poll::Ready(Err(_)) => {}, _ => panic!() }
            drop(g);
        }
        let (a2, b2) = (LIVE.load(Ordering::SeqCst), LIVEB.load(Ordering::SeqCst));
        println!("round {round}: ok cycles: d_allocs={} d_bytes={}; failing calls: d_allocs={} d_bytes={}", a1-a0, b1-b0, a2-a1, b2-b1);
    }
}
