//! X01: replay Gen_Signal behaviours (AutoPoll = FALSE) on the real compio-signal crate with real signals.
//!
//! Three worker threads (0 = owns no listener, 1 and 2 = home threads of listeners) execute the steps the
//! orchestrator (main thread) hands them, one at a time: poll / drop of a `compio_signal::unix::signal(..)`
//! future with an instrumented waker, `raise(sig)` (the handler then runs on top of that thread).  A waker can
//! park inside `wake()`, i.e. inside the handler's read section of the half-lock; register / unregister calls
//! of other threads then have to wait in `write_barrier` until the handler is released.
//!
//! After every step the observation (listener states, wake counts, errors, dispositions read with sigaction,
//! leaked allocations, parked handlers, blocked call) is compared with the model (`mismatch`) and the property's
//! own predicates are evaluated on it (`contract`):
//!   C1 a listener is woken / completes only after its own signal was raised since it registered
//!   C2 a raise that returned has woken every listener of that signal that was registered before it, and such a
//!      listener completes at its next poll
//!   C3 never more wakes than polls that returned Pending
//!   C4 while a listener is registered its signal does not have the default disposition
//!   C5 a failed registration leaves nothing behind (allocation count)
//!   C6 nothing hangs, nothing panics
use std::{
    collections::BTreeMap,
    future::Future,
    io,
    panic::{AssertUnwindSafe, catch_unwind},
    pin::Pin,
    sync::{
        Arc,
        atomic::Ordering,
        mpsc::{Receiver, Sender, channel},
    },
    task::{Context, Poll, Waker},
    time::Duration,
};

use hcore::out::{Report, panic_msg, silence_panics};
use hx01::{
    CountingAlloc, LWaker, SlabMirror, handler_installed,
    proto::{Act, Case, Obs, act_name, diff, obs_json, parse_case},
    signo, thread_allocs, wait_until, watchdog,
};
use serde_json::{Value, json};

#[global_allocator]
static A: CountingAlloc = CountingAlloc;

type Fut = Pin<Box<dyn Future<Output = io::Result<()>>>>;

enum Cmd {
    NewCase(Vec<(usize, i32, Arc<LWaker>)>),
    Poll(usize),
    Drop(usize),
    Raise(i32),
}

#[derive(Debug)]
enum Reply {
    Ok,
    Pending,
    ReadyOk,
    /// errno, allocations left behind by the call
    ReadyErr(i32, i64),
    Dropped,
    Raised,
    Panic(String),
}

fn worker(rx: Receiver<Cmd>, tx: Sender<Reply>) {
    let mut futs: Vec<Option<Fut>> = Vec::new();
    let mut wakers: Vec<Option<Arc<LWaker>>> = Vec::new();
    while let Ok(cmd) = rx.recv() {
        let reply = match cmd {
            Cmd::NewCase(ls) => {
                futs.clear();
                wakers.clear();
                for (l, sig, w) in ls {
                    while futs.len() <= l {
                        futs.push(None);
                        wakers.push(None);
                    }
                    futs[l] = Some(Box::pin(compio_signal::unix::signal(sig)));
                    wakers[l] = Some(w);
                }
                Reply::Ok
            }
            Cmd::Poll(l) => {
                let w = Waker::from(wakers[l].clone().expect("waker"));
                let mut cx = Context::from_waker(&w);
                let mut f = futs[l].take().expect("future");
                let before = thread_allocs();
                let r = catch_unwind(AssertUnwindSafe(|| f.as_mut().poll(&mut cx)));
                let after = thread_allocs();
                match r {
                    Ok(Poll::Pending) => {
                        futs[l] = Some(f);
                        Reply::Pending
                    }
                    Ok(Poll::Ready(Ok(()))) => Reply::ReadyOk,
                    Ok(Poll::Ready(Err(e))) => Reply::ReadyErr(e.raw_os_error().unwrap_or(-1), after - before),
                    Err(p) => {
                        std::mem::forget(f);
                        Reply::Panic(panic_msg(p))
                    }
                }
            }
            Cmd::Drop(l) => {
                let f = futs[l].take();
                match catch_unwind(AssertUnwindSafe(move || drop(f))) {
                    Ok(()) => Reply::Dropped,
                    Err(p) => Reply::Panic(panic_msg(p)),
                }
            }
            Cmd::Raise(sig) => {
                unsafe { libc::raise(sig) };
                Reply::Raised
            }
        };
        if tx.send(reply).is_err() {
            break;
        }
    }
}

struct Abort(String);

struct Blocked {
    t: usize,
    l: usize,
}

struct CaseState {
    n: usize,
    sig: Vec<i32>,
    signame: Vec<String>,
    home: Vec<usize>,
    wakers: Vec<Arc<LWaker>>,
    st: Vec<String>,
    key: Vec<Option<usize>>,
    pend_polls: Vec<u64>,
    failed: Vec<bool>,
    may: Vec<bool>,
    must: Vec<bool>,
    leaks: u64,
    /// thread -> (listener parked at, listeners registered before that raise)
    parked_on: BTreeMap<usize, (usize, Vec<usize>)>,
    blocked: Option<Blocked>,
}

struct Orc {
    cmd: Vec<Sender<Cmd>>,
    rep_rx: Vec<Receiver<Reply>>,
    mirror: SlabMirror,
    report: Report,
    raw: Value,
    stepno: usize,
    parks: u64,
    blocks: u64,
    early: u64,
    leaks_total: u64,
    final_polls: u64,
    hangs: u32,
    dp_waits_expired: u32,
}

impl Orc {
    fn problem(&mut self, ty: &str, sig: Value, desc: String) {
        if ty == "hang" {
            self.hangs += 1;
        }
        let raw = self.raw.clone();
        self.report.problem(ty, sig, desc, &raw, self.stepno);
    }

    fn await_reply(&mut self, t: usize, limit: Duration) -> Option<Reply> {
        let mut got = None;
        let rx = &self.rep_rx[t];
        wait_until(limit, || {
            if let Ok(r) = rx.try_recv() {
                got = Some(r);
                true
            } else {
                false
            }
        });
        got
    }

    fn send(&mut self, t: usize, c: Cmd) {
        self.cmd[t].send(c).expect("worker gone");
    }
}

impl Orc {
    /// bookkeeping for the completion of a poll / drop call of listener l
    fn on_reply(&mut self, cs: &mut CaseState, l: usize, r: Reply) -> Result<(), Abort> {
        match r {
            Reply::Pending => {
                cs.st[l] = "pend".into();
                cs.pend_polls[l] += 1;
            }
            Reply::ReadyOk => {
                cs.st[l] = "done".into();
                if let Some(k) = cs.key[l].take() {
                    self.mirror.remove(k);
                }
                if !cs.may[l] {
                    let s = cs.signame[l].clone();
                    self.problem(
                        "contract",
                        json!({"site": "listener", "kind": "completed_without_its_signal", "sig": s}),
                        format!("listener {l} of signal {s} completed although that signal was not raised since it registered"),
                    );
                }
            }
            Reply::ReadyErr(errno, left) => {
                cs.st[l] = "done".into();
                cs.failed[l] = true;
                if left > 0 {
                    cs.leaks += 1;
                    self.leaks_total += 1;
                    cs.key[l] = None; // the entry stays in the table for ever
                    let s = cs.signame[l].clone();
                    self.problem(
                        "contract",
                        json!({"site": "register", "kind": "entry_left_after_sigaction_error"}),
                        format!(
                            "signal({s}) failed with errno {errno} but left {left} allocation(s) behind: the table entry \
                             inserted before sigaction is never removed"
                        ),
                    );
                } else if let Some(k) = cs.key[l].take() {
                    self.mirror.remove(k);
                }
            }
            Reply::Dropped => {
                cs.st[l] = "done".into();
            }
            Reply::Panic(m) => {
                cs.st[l] = "done".into();
                self.problem("panic", json!({"site": "listener", "kind": "panic"}), format!("listener {l}: {m}"));
                return Err(Abort("panic".into()));
            }
            other => return Err(Abort(format!("unexpected reply {other:?}"))),
        }
        Ok(())
    }

    /// issue a poll / drop call of listener l on its home thread and wait for it unless the model says it blocks
    fn call(&mut self, cs: &mut CaseState, l: usize, cmd: Cmd, exp: &Obs) -> Result<(), Abort> {
        let t = cs.home[l];
        let expect_blocked = exp.bt == t;
        self.send(t, cmd);
        if expect_blocked {
            // The call is expected to stay inside write_barrier.  That is a negative observation: give an early
            // return a moment to show up, and wait until the part of the call before the barrier has had its
            // visible effect (the disposition the model expects), because the thread may not have run yet.
            let t0 = std::time::Instant::now();
            let mut reply = None;
            let rx = &self.rep_rx[t];
            // (a tree on which the expected disposition never shows up must not cost a watchdog per case)
            let limit = if self.dp_waits_expired < 3 { watchdog() } else { Duration::from_millis(50) };
            let seen = wait_until(limit, || {
                if let Ok(r) = rx.try_recv() {
                    reply = Some(r);
                    return true;
                }
                t0.elapsed() >= Duration::from_millis(2)
                    && (handler_installed(libc::SIGUSR1), handler_installed(libc::SIGUSR2)) == exp.dp
            });
            if !seen {
                self.dp_waits_expired += 1;
            }
            if let Some(r) = reply {
                self.early += 1;
                self.early_return(cs, l);
                return self.on_reply(cs, l, r);
            }
            cs.st[l] = "busy".into();
            cs.blocked = Some(Blocked { t, l });
            self.blocks += 1;
            return Ok(());
        }
        match self.await_reply(t, watchdog()) {
            Some(r) => self.on_reply(cs, l, r),
            None => {
                cs.st[l] = "busy".into();
                cs.blocked = Some(Blocked { t, l });
                let parked = !cs.parked_on.is_empty();
                self.problem(
                    "hang",
                    json!({"site": "listener", "kind": "call_does_not_return", "handler_parked": parked}),
                    format!("poll/drop of listener {l} on thread {t} did not return within the watchdog"),
                );
                Err(Abort("hang".into()))
            }
        }
    }

    fn early_return(&mut self, cs: &CaseState, l: usize) {
        let parked: Vec<usize> = cs.parked_on.keys().copied().collect();
        self.problem(
            "contract",
            json!({"site": "half_lock", "kind": "writer_returned_while_handler_inside"}),
            format!(
                "register/unregister of listener {l} returned (old table freed) while the handler parked on thread(s) \
                 {parked:?} is still inside its read section of that table"
            ),
        );
    }

    fn raise_done(&mut self, cs: &mut CaseState, pre: &[usize]) {
        for &l in pre {
            if cs.st[l] == "done" {
                continue;
            }
            cs.must[l] = true;
            if cs.pend_polls[l] > 0 && cs.wakers[l].wakes.load(Ordering::SeqCst) == 0 {
                let s = cs.signame[l].clone();
                self.problem(
                    "contract",
                    json!({"site": "handler", "kind": "registered_listener_not_woken", "sig": s}),
                    format!("raise({s}) returned but the registered listener {l} of that signal was not woken"),
                );
            }
        }
    }

    fn step(&mut self, cs: &mut CaseState, act: &Act, exp: &Obs) -> Result<(), Abort> {
        match act {
            Act::Poll(l) => {
                let l = *l;
                match cs.st[l].as_str() {
                    "new" => cs.key[l] = Some(self.mirror.insert()),
                    "pend" => {}
                    o => return Err(Abort(format!("poll of listener in state {o}"))),
                }
                self.call(cs, l, Cmd::Poll(l), exp)
            }
            Act::Drop(l) => {
                let l = *l;
                match cs.st[l].as_str() {
                    "new" => {}
                    "pend" => {
                        if let Some(k) = cs.key[l].take() {
                            self.mirror.remove(k);
                        }
                    }
                    o => return Err(Abort(format!("drop of listener in state {o}"))),
                }
                self.call(cs, l, Cmd::Drop(l), exp)
            }
            Act::Raise(s, on, pk) => {
                let (on, pk) = (*on, *pk);
                let sig = signo(s);
                if !handler_installed(sig) {
                    let reg: Vec<usize> = (1..=cs.n).filter(|&l| cs.sig[l] == sig && cs.st[l] == "pend").collect();
                    if reg.is_empty() {
                        self.problem(
                            "mismatch",
                            json!({"site": "replay_signal", "act": "raise", "fields": ["not_raised_no_handler"]}),
                            format!("the model raises {s} here but no handler is installed (raise would kill the process)"),
                        );
                    }
                    // with registered listeners C4 has reported it already
                    return Err(Abort("no handler".into()));
                }
                let pre: Vec<usize> = (1..=cs.n).filter(|&l| cs.sig[l] == sig && cs.st[l] == "pend").collect();
                for l in 1..=cs.n {
                    if cs.sig[l] == sig && cs.st[l] != "new" {
                        cs.may[l] = true;
                    }
                }
                if pk != 0 {
                    cs.wakers[pk].arm.store(true, Ordering::SeqCst);
                }
                self.send(on, Cmd::Raise(sig));
                let mut reply = None;
                let rx = &self.rep_rx[on];
                let wk = if pk != 0 { Some(cs.wakers[pk].clone()) } else { None };
                let ok = wait_until(watchdog(), || {
                    if let Ok(r) = rx.try_recv() {
                        reply = Some(r);
                        return true;
                    }
                    wk.as_ref().is_some_and(|w| w.parked.load(Ordering::SeqCst))
                });
                if !ok {
                    self.problem(
                        "hang",
                        json!({"site": "handler", "kind": "raise_does_not_return"}),
                        format!("raise({s}) on thread {on} did not return within the watchdog"),
                    );
                    return Err(Abort("hang".into()));
                }
                if reply.is_some() {
                    if pk != 0 {
                        cs.wakers[pk].arm.store(false, Ordering::SeqCst);
                    }
                    self.raise_done(cs, &pre);
                } else {
                    self.parks += 1;
                    cs.parked_on.insert(on, (pk, pre));
                }
                Ok(())
            }
            Act::Release(on) => {
                let on = *on;
                let Some((pk, pre)) = cs.parked_on.get(&on).cloned() else {
                    return Err(Abort(format!("release: no handler parked on thread {on}")));
                };
                // a call the model has blocked must still be blocked now
                if let Some(b) = cs.blocked.as_ref().map(|b| (b.t, b.l)) {
                    if let Some(r) = self.await_reply(b.0, Duration::from_millis(2)) {
                        self.early += 1;
                        self.early_return(cs, b.1);
                        cs.blocked = None;
                        self.on_reply(cs, b.1, r)?;
                    }
                }
                cs.wakers[pk].release.store(true, Ordering::SeqCst);
                match self.await_reply(on, watchdog()) {
                    Some(Reply::Raised) => {}
                    other => {
                        self.problem(
                            "hang",
                            json!({"site": "handler", "kind": "released_handler_does_not_return"}),
                            format!("handler released on thread {on}: {other:?}"),
                        );
                        return Err(Abort("hang".into()));
                    }
                }
                cs.parked_on.remove(&on);
                self.raise_done(cs, &pre);
                if let Some(b) = cs.blocked.as_ref().map(|b| (b.t, b.l)) {
                    if exp.bt == 0 {
                        cs.blocked = None;
                        match self.await_reply(b.0, watchdog()) {
                            Some(r) => self.on_reply(cs, b.1, r)?,
                            None => {
                                cs.blocked = Some(Blocked { t: b.0, l: b.1 });
                                self.problem(
                                    "hang",
                                    json!({"site": "half_lock", "kind": "writer_still_blocked_after_release"}),
                                    format!("call of listener {} still blocked although no handler is inside any more", b.1),
                                );
                                return Err(Abort("hang".into()));
                            }
                        }
                    }
                }
                Ok(())
            }
        }
    }

    fn observe(&self, cs: &CaseState) -> Obs {
        let mut pk: Vec<usize> = cs.parked_on.keys().copied().collect();
        pk.sort();
        Obs {
            st: (1..=cs.n).map(|l| cs.st[l].clone()).collect(),
            wk: (1..=cs.n).map(|l| cs.wakers[l].wakes.load(Ordering::SeqCst)).collect(),
            fl: (1..=cs.n).map(|l| cs.failed[l]).collect(),
            dp: (handler_installed(libc::SIGUSR1), handler_installed(libc::SIGUSR2)),
            lk: cs.leaks,
            pk,
            bt: cs.blocked.as_ref().map(|b| b.t).unwrap_or(0),
        }
    }

    fn contracts(&mut self, cs: &CaseState) {
        for l in 1..=cs.n {
            let w = cs.wakers[l].wakes.load(Ordering::SeqCst);
            let s = cs.signame[l].clone();
            if w > cs.pend_polls[l] {
                self.problem(
                    "contract",
                    json!({"site": "listener", "kind": "woken_more_often_than_polled_pending", "sig": s}),
                    format!("listener {l}: {w} wakes for {} polls that returned Pending", cs.pend_polls[l]),
                );
            }
            if w > 0 && !cs.may[l] {
                self.problem(
                    "contract",
                    json!({"site": "handler", "kind": "woken_by_another_signal", "sig": s}),
                    format!("listener {l} of signal {s} was woken although only other signals were raised"),
                );
            }
            let others = (1..=cs.n).any(|m| cs.sig[m] == cs.sig[l] && (cs.st[m] == "pend" || cs.st[m] == "busy"));
            if s != "k" && !others && handler_installed(cs.sig[l]) {
                self.problem(
                    "contract",
                    json!({"site": "unregister", "kind": "handler_left_installed_without_listener", "sig": s}),
                    format!("no listener is registered for {s} any more but its handler is still installed: the signal is swallowed from now on"),
                );
            }
            if cs.st[l] == "pend" && s != "k" && !handler_installed(cs.sig[l]) {
                self.problem(
                    "contract",
                    json!({"site": "unregister", "kind": "default_disposition_while_registered", "sig": s}),
                    format!("listener {l} is registered for {s} but the disposition of {s} is SIG_DFL: the signal would kill the process"),
                );
            }
        }
    }
}

impl Orc {
    /// Bring the process back to a state equivalent to a fresh one: no handler inside, no listener registered,
    /// free list of the table ascending.  Err = a thread is stuck for good, the process cannot go on.
    fn cleanup(&mut self, cs: &mut CaseState) -> Result<(), String> {
        let parked: Vec<(usize, usize, Vec<usize>)> =
            cs.parked_on.iter().map(|(t, (l, pre))| (*t, *l, pre.clone())).collect();
        for (t, l, pre) in parked {
            cs.wakers[l].release.store(true, Ordering::SeqCst);
            match self.await_reply(t, watchdog()) {
                Some(Reply::Raised) => {
                    cs.parked_on.remove(&t);
                    self.raise_done(cs, &pre);
                }
                other => return Err(format!("cleanup: handler on thread {t} does not return ({other:?})")),
            }
        }
        if let Some(b) = cs.blocked.take() {
            match self.await_reply(b.t, watchdog()) {
                Some(r) => {
                    let _ = self.on_reply(cs, b.l, r);
                }
                None => return Err(format!("cleanup: call of listener {} on thread {} never returns", b.l, b.t)),
            }
        }
        // final polls: what the flags say without changing the script
        for l in 1..=cs.n {
            if cs.st[l] == "pend" {
                self.final_polls += 1;
                let t = cs.home[l];
                self.send(t, Cmd::Poll(l));
                match self.await_reply(t, watchdog()) {
                    Some(r) => {
                        let pending = matches!(r, Reply::Pending);
                        let _ = self.on_reply(cs, l, r);
                        if pending && cs.must[l] {
                            let s = cs.signame[l].clone();
                            self.problem(
                                "contract",
                                json!({"site": "handler", "kind": "delivered_signal_not_seen_by_listener", "sig": s}),
                                format!("listener {l} was registered when raise({s}) returned, but its next poll is Pending"),
                            );
                        }
                    }
                    None => return Err(format!("cleanup: final poll of listener {l} never returns")),
                }
            }
            if cs.st[l] == "pend" || cs.st[l] == "new" {
                if cs.st[l] == "pend" {
                    if let Some(k) = cs.key[l].take() {
                        self.mirror.remove(k);
                    }
                }
                let t = cs.home[l];
                self.send(t, Cmd::Drop(l));
                match self.await_reply(t, watchdog()) {
                    Some(r) => {
                        let _ = self.on_reply(cs, l, r);
                    }
                    None => return Err(format!("cleanup: drop of listener {l} never returns")),
                }
            }
        }
        self.canonicalize()
    }

    /// fill every vacant slot with a dummy listener, then drop the dummies in descending key order:
    /// afterwards keys are handed out in ascending order again, as in a fresh table
    fn canonicalize(&mut self) -> Result<(), String> {
        let w = Waker::noop();
        let mut cx = Context::from_waker(w);
        let mut dummies: Vec<(usize, Fut)> = Vec::new();
        for _ in 0..self.mirror.vacant() {
            let mut f: Fut = Box::pin(compio_signal::unix::signal(libc::SIGUSR1));
            let k = self.mirror.insert();
            match catch_unwind(AssertUnwindSafe(|| f.as_mut().poll(&mut cx))) {
                Ok(Poll::Pending) => dummies.push((k, f)),
                other => return Err(format!("canonicalize: dummy registration gave {:?}", other.map(|p| p.is_ready()).ok())),
            }
        }
        dummies.sort_by(|a, b| b.0.cmp(&a.0));
        for (k, f) in dummies {
            self.mirror.remove(k);
            if catch_unwind(AssertUnwindSafe(move || drop(f))).is_err() {
                return Err("canonicalize: dummy drop panicked".into());
            }
        }
        Ok(())
    }

    fn run_case(&mut self, case: &Case) -> Result<(), String> {
        let n = case.sig.len();
        let mut cs = CaseState {
            n,
            sig: std::iter::once(0).chain(case.sig.iter().map(|s| signo(s))).collect(),
            signame: std::iter::once(String::new()).chain(case.sig.iter().cloned()).collect(),
            home: std::iter::once(0).chain(case.home.iter().copied()).collect(),
            wakers: (0..=n).map(|_| LWaker::new()).collect(),
            st: (0..=n).map(|_| "new".to_string()).collect(),
            key: vec![None; n + 1],
            pend_polls: vec![0; n + 1],
            failed: vec![false; n + 1],
            may: vec![false; n + 1],
            must: vec![false; n + 1],
            leaks: 0,
            parked_on: BTreeMap::new(),
            blocked: None,
        };
        for t in 0..self.cmd.len() {
            let ls: Vec<(usize, i32, Arc<LWaker>)> =
                (1..=n).filter(|&l| cs.home[l] == t).map(|l| (l, cs.sig[l], cs.wakers[l].clone())).collect();
            self.send(t, Cmd::NewCase(ls));
            if self.await_reply(t, watchdog()).is_none() {
                return Err(format!("worker {t} does not answer"));
            }
        }
        for (i, s) in case.steps.iter().enumerate() {
            self.stepno = i;
            self.report.steps += 1;
            let r = self.step(&mut cs, &s.act, &s.x);
            self.contracts(&cs);
            let real = self.observe(&cs);
            let d = diff(&real, &s.x);
            if !d.is_empty() {
                self.problem(
                    "mismatch",
                    json!({"site": "replay_signal", "act": act_name(&s.act), "fields": d}),
                    format!("step {i} {:?}: real {} expected {}", s.act, obs_json(&real), obs_json(&s.x)),
                );
                break;
            }
            if let Err(Abort(why)) = r {
                if why != "hang" && why != "panic" && why != "no handler" {
                    self.problem(
                        "mismatch",
                        json!({"site": "replay_signal", "act": act_name(&s.act), "fields": ["inapplicable"]}),
                        format!("step {i} {:?}: {why}", s.act),
                    );
                }
                break;
            }
        }
        self.stepno = case.steps.len();
        let r = self.cleanup(&mut cs);
        if r.is_ok() {
            for (name, sig) in [("a", libc::SIGUSR1), ("b", libc::SIGUSR2)] {
                if handler_installed(sig) {
                    self.problem(
                        "contract",
                        json!({"site": "unregister", "kind": "handler_left_installed_without_listener", "sig": name}),
                        format!("every listener was dropped but the handler for {name} is still installed: the signal is swallowed from now on"),
                    );
                    // restore the baseline so that the following cases are not contaminated
                    unsafe { libc::signal(sig, libc::SIG_DFL) };
                }
            }
        }
        r
    }
}

fn main() {
    silence_panics();
    let args: Vec<String> = std::env::args().collect();
    let path = args.get(1).expect("usage: replay_signal <cases.jsonl> [--from N]");
    let mut from = 0usize;
    let mut i = 2;
    while i < args.len() {
        if args[i] == "--from" {
            from = args[i + 1].parse().unwrap();
            i += 1;
        }
        i += 1;
    }
    let mut cmd = vec![];
    let mut rep_rx = vec![];
    for _ in 0..3 {
        let (ctx, crx) = channel();
        let (rtx, rrx) = channel();
        std::thread::spawn(move || worker(crx, rtx));
        cmd.push(ctx);
        rep_rx.push(rrx);
    }
    let mut orc = Orc {
        cmd,
        rep_rx,
        mirror: SlabMirror::default(),
        report: Report::new(),
        raw: Value::Null,
        stepno: 0,
        parks: 0,
        blocks: 0,
        early: 0,
        leaks_total: 0,
        final_polls: 0,
        hangs: 0,
        dp_waits_expired: 0,
    };
    // warm-up: the table gets its buffer, the free list is canonical
    orc.mirror.insert();
    orc.mirror.remove(0);
    let mut fatal = None;
    if let Err(e) = orc.canonicalize() {
        fatal = Some(e);
    }
    let text = std::fs::read_to_string(path).expect("read cases");
    let mut done = 0usize;
    for (idx, line) in text.lines().enumerate() {
        if fatal.is_some() {
            break;
        }
        let line = line.trim();
        if line.is_empty() || idx < from {
            continue;
        }
        let v: Value = serde_json::from_str(line).expect("bad json");
        let case = parse_case(&v);
        orc.raw = v;
        orc.report.cases += 1;
        if let Err(e) = orc.run_case(&case) {
            orc.problem("hang", json!({"site": "replay_signal", "kind": "process_wedged"}), e.clone());
            fatal = Some(e);
        }
        if orc.hangs >= 3 && fatal.is_none() {
            fatal = Some("three watchdog expiries: not waiting for more".into());
        }
        done = idx + 1;
        if done % 500 == 0 {
            eprintln!("PROGRESS {done}");
        }
    }
    let mut r = orc.report;
    r.set("parks", json!(orc.parks));
    r.set("blocked_calls", json!(orc.blocks));
    r.set("early_returns", json!(orc.early));
    r.set("leaks", json!(orc.leaks_total));
    r.set("final_polls", json!(orc.final_polls));
    r.set("next", json!(done));
    r.set("fatal", json!(fatal));
    r.finish();
    // worker threads may be stuck inside the code under test: do not join them
    std::process::exit(if fatal.is_some() { 3 } else { 0 });
}
