//! extension harness hx01 (check X01: signal delivery of compio-signal).
//!
//! Shared pieces of the binaries:
//!  * `CountingAlloc`: global allocator that counts live allocations (leak observation) and overwrites freed
//!    blocks (a handler that still reads a freed listener table then sees garbage deterministically instead of
//!    whatever the allocator left there);
//!  * `LWaker`: instrumented waker of a listener: counts wakes and can park INSIDE `wake()`, i.e. inside the
//!    signal handler and inside the read section of the half-lock, using only async-signal-safe operations;
//!  * `SlabMirror`: replica of `slab::Slab` key allocation, so that the harness knows the key (= position in the
//!    handler's iteration order) of every listener and can bring the process-global table back to a canonical
//!    free list between cases;
//!  * signal numbers, disposition query.
pub mod proto;

use std::{
    alloc::{GlobalAlloc, Layout, System},
    sync::{
        Arc,
        atomic::{AtomicBool, AtomicI64, AtomicU64, Ordering},
    },
    task::Wake,
    time::{Duration, Instant},
};

pub static LIVE_ALLOCS: AtomicI64 = AtomicI64::new(0);

thread_local! {
    /// allocations minus deallocations performed by this thread (no destructor, const: safe inside the allocator)
    static TL_ALLOCS: std::cell::Cell<i64> = const { std::cell::Cell::new(0) };
}

/// allocations minus deallocations performed by the calling thread so far
pub fn thread_allocs() -> i64 {
    TL_ALLOCS.try_with(|c| c.get()).unwrap_or(0)
}

fn tl_add(d: i64) {
    let _ = TL_ALLOCS.try_with(|c| c.set(c.get() + d));
}
pub static POISON: AtomicBool = AtomicBool::new(true);

pub struct CountingAlloc;

unsafe impl GlobalAlloc for CountingAlloc {
    unsafe fn alloc(&self, l: Layout) -> *mut u8 {
        tl_add(1);
        LIVE_ALLOCS.fetch_add(1, Ordering::Relaxed);
        unsafe { System.alloc(l) }
    }

    unsafe fn dealloc(&self, p: *mut u8, l: Layout) {
        tl_add(-1);
        LIVE_ALLOCS.fetch_sub(1, Ordering::Relaxed);
        if l.size() <= 4096 && POISON.load(Ordering::Relaxed) {
            unsafe { std::ptr::write_bytes(p, 0xA5, l.size()) };
        }
        unsafe { System.dealloc(p, l) }
    }

    unsafe fn alloc_zeroed(&self, l: Layout) -> *mut u8 {
        tl_add(1);
        LIVE_ALLOCS.fetch_add(1, Ordering::Relaxed);
        unsafe { System.alloc_zeroed(l) }
    }

    unsafe fn realloc(&self, p: *mut u8, l: Layout, n: usize) -> *mut u8 {
        unsafe { System.realloc(p, l, n) }
    }
}

/// model signal name -> real signal number
pub fn signo(name: &str) -> i32 {
    match name {
        "a" => libc::SIGUSR1,
        "b" => libc::SIGUSR2,
        "c" => libc::SIGHUP,
        "k" => libc::SIGKILL,
        _ => panic!("unknown model signal {name}"),
    }
}

/// true when a handler is installed for `sig` (neither SIG_DFL nor SIG_IGN); does not change anything
pub fn handler_installed(sig: i32) -> bool {
    unsafe {
        let mut old: libc::sigaction = std::mem::zeroed();
        if libc::sigaction(sig, std::ptr::null(), &mut old) != 0 {
            return false;
        }
        old.sa_sigaction != libc::SIG_DFL && old.sa_sigaction != libc::SIG_IGN
    }
}

/// Instrumented waker of one listener.
pub struct LWaker {
    pub wakes: AtomicU64,
    /// park inside the next wake()
    pub arm: AtomicBool,
    /// a thread is parked inside wake() right now
    pub parked: AtomicBool,
    pub release: AtomicBool,
}

impl LWaker {
    pub fn new() -> Arc<Self> {
        Arc::new(Self {
            wakes: AtomicU64::new(0),
            arm: AtomicBool::new(false),
            parked: AtomicBool::new(false),
            release: AtomicBool::new(false),
        })
    }

    fn on_wake(&self) {
        self.wakes.fetch_add(1, Ordering::SeqCst);
        if self.arm.swap(false, Ordering::SeqCst) {
            // we are inside signal_handler, holding the ReadGuard: only async-signal-safe calls from here
            self.parked.store(true, Ordering::SeqCst);
            let mut spins = 0u64;
            while !self.release.load(Ordering::SeqCst) {
                spins += 1;
                if spins % 64 == 0 {
                    let ts = libc::timespec { tv_sec: 0, tv_nsec: 200_000 };
                    unsafe { libc::nanosleep(&ts, std::ptr::null_mut()) };
                } else {
                    unsafe { libc::sched_yield() };
                }
            }
            self.release.store(false, Ordering::SeqCst);
            self.parked.store(false, Ordering::SeqCst);
        }
    }
}

impl Wake for LWaker {
    fn wake(self: Arc<Self>) {
        self.on_wake();
    }

    fn wake_by_ref(self: &Arc<Self>) {
        self.on_wake();
    }
}

/// Replica of the key allocation of `slab::Slab` (insert takes `next`, remove pushes on the LIFO free list).
#[derive(Clone, Debug, Default)]
pub struct SlabMirror {
    /// None = occupied, Some(n) = vacant with next-free n
    ent: Vec<Option<usize>>,
    next: usize,
}

impl SlabMirror {
    pub fn insert(&mut self) -> usize {
        let k = self.next;
        if k == self.ent.len() {
            self.ent.push(None);
            self.next = k + 1;
        } else {
            self.next = self.ent[k].expect("mirror: next points at an occupied entry");
            self.ent[k] = None;
        }
        k
    }

    pub fn remove(&mut self, k: usize) {
        assert!(self.ent[k].is_none(), "mirror: removing a vacant key");
        self.ent[k] = Some(self.next);
        self.next = k;
    }

    pub fn vacant(&self) -> usize {
        self.ent.iter().filter(|e| e.is_some()).count()
    }

    pub fn len(&self) -> usize {
        self.ent.len()
    }

    pub fn is_empty(&self) -> bool {
        self.ent.is_empty()
    }
}

/// Wait until `f` is true; false after `limit` (a hang of the code under test, reported as data).
pub fn wait_until(limit: Duration, mut f: impl FnMut() -> bool) -> bool {
    let t0 = Instant::now();
    let mut n = 0u32;
    loop {
        if f() {
            return true;
        }
        n += 1;
        if n < 200 {
            std::thread::yield_now();
        } else {
            std::thread::sleep(Duration::from_micros(200));
            if t0.elapsed() > limit {
                return f();
            }
        }
    }
}

pub fn watchdog() -> Duration {
    let s = std::env::var("X01_WATCHDOG_S").ok().and_then(|v| v.parse().ok()).unwrap_or(20u64);
    Duration::from_secs(s)
}
