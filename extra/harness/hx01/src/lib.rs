//! extension harness hx01
